package main

import (
	"context"
	"fmt"
	"io"
	"net/http"
	"net/http/httptest"
	"strconv"
	"strings"

	"github.com/gookit/color"
	"github.com/gookit/rux"
)

// engine chain (C05, onion half of C04): handler chains on a REAL router.
//
// Protocol (see lean/RuxModel/Drv/Chain.lean):
//
//	new | g <acts> | p <acts> | r <acts> | m <acts>   -> ok
//	serve <variant>                                  -> ok|ab <trace> st=<status> ;; idx=<cursor>
//	servef <variant> <k>                             -> the same; the client's connection breaks: every Write that
//	                                                    reaches the underlying writer fails from the k-th on (k = 0: all)
//	lim <g1> <g2> <pre> <u> <variant>                -> accept <n> | reject <step>
//
// One line per handler, so that the shrinker (which drops lines) removes handlers one by one.
// The chain is global (g) ++ group (p) ++ route (r) middleware ++ main handler (m); the handlers are
// closures built from the same action lists the model interprets. `variant` selects how the same chain is
// registered (Use before/after the route, one or two nested groups, group middleware through Group() or
// through Use inside the group, route middleware variadic or through Route.Use).
type chainEngine struct{}

func init() { register(chainEngine{}) }

func (chainEngine) Name() string         { return "chain" }
func (chainEngine) DriverEngine() string { return "chain" }

func (chainEngine) Budget(tier string) int {
	if tier == "thorough" {
		return 40000
	}
	return 2500
}

/**************** actions ****************/

type chainAct struct {
	kind byte // e n a t s x i c w
	arg  int
}

func parseChainActs(s string) ([]chainAct, bool) {
	if s == "-" {
		return nil, true
	}
	var out []chainAct
	for _, tok := range strings.Split(s, ",") {
		if tok == "" {
			return nil, false
		}
		k := tok[0]
		switch k {
		case 'n', 'a', 't', 'R', 'd':
			if len(tok) != 1 {
				return nil, false
			}
			out = append(out, chainAct{kind: k})
		case 'e', 's', 'x', 'i', 'c', 'w', 'b', 'W', 'Y', 'q', 'k':
			n, err := strconv.Atoi(tok[1:])
			if err != nil || n < 0 {
				return nil, false
			}
			out = append(out, chainAct{kind: k, arg: n})
		default:
			return nil, false
		}
	}
	return out, true
}

// chainRun is the per-request recording shared by the closures of one router.
type chainRun struct {
	trace []string
	ctx   *rux.Context
	marks [2]int // how often a global handler of router 1 / of the second router (see build) was entered

	cxaUsed bool // the request has already re-dispatched once (action `d`)
}

func (cr *chainRun) add(format string, a ...interface{}) {
	cr.trace = append(cr.trace, fmt.Sprintf(format, a...))
}

// mkHandler builds the real closure for the handler at chain position pos.
func mkHandler(cr *chainRun, pos int, acts []chainAct) rux.HandlerFunc {
	return func(c *rux.Context) {
		cr.ctx = c
		cr.add("E%d", pos)
		for _, a := range acts {
			switch a.kind {
			case 'b':
				// a marker for the model; the real handler also swaps c.Resp for a transparent buffering
				// writer (same status/commit rules as rux's own) until it returns, then replays into the
				// original. Helpers must go through c.Resp, so this must not change anything observable.
				cr.add("M%d.%d", pos, a.arg)
				orig := c.Resp
				buf := &bufResp{h: orig.Header()}
				c.Resp = buf
				defer func() {
					c.Resp = orig
					st := buf.status
					if st <= 0 {
						st = 200 // like every buffering middleware: the recorded status, 200 if none was recorded
					}
					orig.WriteHeader(st)
					if buf.wrote {
						_, _ = orig.Write(buf.body)
					}
				}()
			case 'e':
				cr.add("M%d.%d", pos, a.arg)
			case 'k':
				// a marker for the model; the real handler also gives the request a derived context that is cancelled when
				// the handler returns (what a timeout middleware does: `defer cancel()`): the response is still committed
				cr.add("M%d.%d", pos, a.arg)
				kctx, cancel := context.WithCancel(c.Req.Context())
				c.Req = c.Req.WithContext(kctx)
				defer cancel()
			case 'q':
				// a marker for the model; the real handler also records an error (c.AddError): these routers have no
				// OnError handler, so nothing observable may depend on it
				cr.add("M%d.%d", pos, a.arg)
				c.AddError(fmt.Errorf("q%d", a.arg))
			case 'n':
				c.Next()
			case 'R':
				cxRecoveringNext(cr, pos, c)
			case 'a':
				cr.add("A%d", pos)
				c.Abort()
			case 't':
				cr.add("A%d", pos)
				c.AbortThen()
			case 's':
				cr.add("S%d.%d", pos, a.arg)
				cr.add("A%d", pos)
				c.AbortWithStatus(a.arg)
			case 'x':
				cr.add("S%d.%d", pos, a.arg)
				cr.add("W%d.0", pos)
				cr.add("A%d", pos)
				c.AbortWithStatus(a.arg, "msg")
			case 'i':
				cr.add("P%d.%d.%s", pos, a.arg, b2s(c.IsAborted()))
			case 'c':
				cr.add("S%d.%d", pos, a.arg)
				c.SetStatus(a.arg)
			case 'w':
				cr.add("W%d.%d", pos, a.arg)
				_, _ = c.Resp.Write([]byte(strconv.Itoa(a.arg) + ";"))
			case 'W', 'Y', 'd':
				cxaAct(cr, pos, a, c)
			}
		}
		cr.add("L%d", pos)
	}
}

// bufResp: a buffering http.ResponseWriter with the commit rules of rux's responseWriter
// (the last positive status before the first write counts).
type bufResp struct {
	h      http.Header
	status int
	wrote  bool
	body   []byte
}

func (b *bufResp) Header() http.Header { return b.h }
func (b *bufResp) WriteHeader(c int) {
	if c > 0 && !b.wrote {
		b.status = c
	}
}
func (b *bufResp) Write(p []byte) (int, error) {
	b.wrote = true
	b.body = append(b.body, p...)
	return len(p), nil
}

/**************** building the router ****************/

type chainState struct {
	g, p, r [][]chainAct
	m       []chainAct
	hasMain bool

	// the router built for the current lists and variant (kept across serve ops, so that a second
	// serve reuses the pooled Context of the first)
	router  *rux.Router
	variant int
	path    string
	run     *chainRun
	// a second router with global handlers of its own (the same actions, but they count in run.marks[1]) to which the
	// SAME *Route object is attached (Route.AttachTo; nil when rux refused that)
	router2 *rux.Router
}

func (s *chainState) build(variant int) {
	cr := &chainRun{}
	G, P := len(s.g), len(s.p)
	var gh, ph, rh []rux.HandlerFunc
	for i, a := range s.g {
		gh = append(gh, mkHandler(cr, i, a))
	}
	for i, a := range s.p {
		ph = append(ph, mkHandler(cr, G+i, a))
	}
	for i, a := range s.r {
		rh = append(rh, mkHandler(cr, G+P+i, a))
	}
	mh := mkHandler(cr, G+P+len(s.r), s.m)

	var gh2 []rux.HandlerFunc
	for i := range gh {
		h := gh[i]
		gh[i] = func(c *rux.Context) { cr.marks[0]++; h(c) }
		gh2 = append(gh2, func(c *rux.Context) { cr.marks[1]++; h(c) })
	}
	var theRoute *rux.Route
	router := rux.New()
	useGlobals := func() {
		if variant&16 != 0 {
			for _, h := range gh {
				router.Use(h)
			}
		} else if len(gh) > 0 {
			router.Use(gh...)
		}
	}
	addRoute := func() {
		if variant&8 != 0 {
			rt := router.GET("/x", mh)
			for _, h := range rh {
				rt.Use(h)
			}
			theRoute = rt
		} else {
			theRoute = router.GET("/x", mh, rh...)
		}
	}
	if variant&1 == 0 {
		useGlobals()
	}
	path := "/x"
	switch {
	case P == 0 && variant&2 == 0:
		addRoute()
	case variant&2 == 0: // one group
		path = "/a/x"
		if variant&4 != 0 {
			router.Group("/a", func() {
				router.Use(ph...)
				addRoute()
			})
		} else {
			router.Group("/a", addRoute, ph...)
		}
	default: // two nested groups, the group middleware split between them
		path = "/a/b/x"
		outer, inner := ph[:P/2], ph[P/2:]
		router.Group("/a", func() {
			if variant&4 != 0 {
				router.Group("/b", func() {
					if len(inner) > 0 {
						router.Use(inner...)
					}
					addRoute()
				})
			} else {
				router.Group("/b", addRoute, inner...)
			}
		}, outer...)
	}
	if variant&1 != 0 {
		useGlobals()
	}
	s.router, s.variant, s.path, s.run = router, variant, path, cr
	s.router2 = nil
	if theRoute != nil && len(gh2) > 0 {
		func() {
			defer func() { _ = recover() }()
			r2 := rux.New()
			r2.Use(gh2...)
			theRoute.AttachTo(r2)
			s.router2 = r2
		}()
	}
}

// cxRecoveringNext is the action `R`: c.Next() inside a recovery middleware (defer/recover around the rest of
// the chain, the shape of handlers.PanicsHandler). Nothing in these chains panics on the current code, so for the
// model it is `n`; a recovered panic is recorded in the trace (the model never shows one).
func cxRecoveringNext(cr *chainRun, pos int, c *rux.Context) {
	defer func() {
		if v := recover(); v != nil {
			cr.add("R%d.%s", pos, panicClass(v))
		}
	}()
	c.Next()
}

// cxBrokenConn is a client connection that breaks: WriteHeader still goes through, every Write from the k-th on
// fails with an error and accepts nothing.
type cxBrokenConn struct {
	rec    *httptest.ResponseRecorder
	k      int
	writes int
}

func (w *cxBrokenConn) Header() http.Header { return w.rec.Header() }
func (w *cxBrokenConn) WriteHeader(c int)   { w.rec.WriteHeader(c) }
func (w *cxBrokenConn) Write(b []byte) (int, error) {
	w.writes++
	if w.writes > w.k {
		return 0, fmt.Errorf("write tcp: broken pipe")
	}
	return w.rec.Write(b)
}

func (s *chainState) serve(variant int) (ans string, oracle []string) {
	return s.cxServe(variant, -1)
}

const cxViaHandleContext = -2

// cxServe: failFrom < 0 = a healthy connection (cxViaHandleContext: entered through Router.HandleContext), else the
// connection breaks at that write.
func (s *chainState) cxServe(variant int, failFrom int) (ans string, oracle []string) {
	if !s.hasMain {
		return "no-main", nil
	}
	if s.router == nil || s.variant != variant {
		s.build(variant)
	}
	s.run.trace = nil
	s.run.ctx = nil
	s.run.cxaUsed = false
	rec := httptest.NewRecorder()
	req := httptest.NewRequest("GET", s.path, nil)
	if failFrom == cxViaHandleContext {
		// the second entry point: a context prepared by the caller, dispatched by Router.HandleContext (which also
		// puts it into the router's pool, so that the next ServeHTTP of this router gets it)
		c := &rux.Context{}
		c.Init(rec, req)
		s.router.HandleContext(c)
	} else if failFrom >= 0 {
		s.router.ServeHTTP(&cxBrokenConn{rec: rec, k: failFrom}, req)
	} else {
		s.router.ServeHTTP(rec, req)
	}

	tr := s.run.trace
	kind := "ok"
	for _, e := range tr {
		if e[0] == 'A' {
			kind = "ab"
			break
		}
	}
	idx := "none"
	if s.run.ctx != nil {
		idx = strconv.Itoa(s.run.ctx.VerifIndex())
	}
	t := "-"
	if len(tr) > 0 {
		t = strings.Join(tr, ",")
	}
	total := len(s.g) + len(s.p) + len(s.r) + 1
	// the same *Route attached to a second router: served there, the request runs THAT router's global handlers (as
	// many entries as router 1 counted for its own) around the same route chain
	if s.router2 != nil && failFrom == -1 {
		m1 := s.run.marks[0]
		svTrace, svCtx, svUsed := s.run.trace, s.run.ctx, s.run.cxaUsed
		s.run.trace, s.run.ctx, s.run.cxaUsed, s.run.marks = nil, nil, false, [2]int{}
		rec2 := httptest.NewRecorder()
		p2 := guarded(func() string {
			s.router2.ServeHTTP(rec2, httptest.NewRequest("GET", s.path, nil))
			return ""
		})
		t2, m2 := "-", s.run.marks
		if len(s.run.trace) > 0 {
			t2 = strings.Join(s.run.trace, ",")
		}
		s.run.trace, s.run.ctx, s.run.cxaUsed = svTrace, svCtx, svUsed
		if p2 == "" && (t2 != t || rec2.Code != rec.Code || m2[0] != 0 || m2[1] != m1) {
			oracle = append(oracle, fmt.Sprintf("C04 one Route attached to two routers: served by the second router the trace is %q st=%d with %d entries into router 1's global handlers and %d into its own; router 1 answered %q st=%d with %d entries into its own", t2, rec2.Code, m2[0], m2[1], t, rec.Code, m1))
		}
	}
	s.run.marks = [2]int{}
	if total <= rux.VerifAbortIndex() {
		if cxaHasRedispatch(tr) {
			oracle = cxaOracle(tr)
		} else {
			oracle = chainOracle(tr, total)
		}
	}
	return fmt.Sprintf("%s %s st=%d ;; idx=%s", kind, t, rec.Code, idx), oracle
}

// chainOracle evaluates the trace clauses of C05 / C04 directly on the implementation's trace
// (only for chains within the handler limit).
func chainOracle(tr []string, total int) (out []string) {
	aborted := false
	nextEnter := 0
	var stack []int
	pos := func(e string) int {
		s := e[1:]
		if i := strings.IndexByte(s, '.'); i >= 0 {
			s = s[:i]
		}
		n, _ := strconv.Atoi(s)
		return n
	}
	for k, e := range tr {
		h := pos(e)
		switch e[0] {
		case 'E':
			if aborted {
				out = append(out, fmt.Sprintf("C05 no later start: handler %d starts after an abort (event %d of %s)", h, k, strings.Join(tr, ",")))
			}
			if h != nextEnter {
				out = append(out, fmt.Sprintf("C04 enter order: handler %d starts, expected %d", h, nextEnter))
			}
			nextEnter = h + 1
			stack = append(stack, h)
		case 'L':
			if len(stack) == 0 || stack[len(stack)-1] != h {
				out = append(out, fmt.Sprintf("C04 reverse order: handler %d returns but is not the innermost running handler", h))
			} else {
				stack = stack[:len(stack)-1]
			}
		case 'A':
			aborted = true
		case 'P':
			got := strings.HasSuffix(e, ".1")
			if got != aborted {
				out = append(out, fmt.Sprintf("C05 IsAborted: handler %d saw %v, abort happened before: %v", h, got, aborted))
			}
		}
		if len(out) > 3 {
			return
		}
	}
	if len(stack) != 0 {
		out = append(out, "C05 suspended handlers: some handler never returned")
	}
	if !aborted && nextEnter != total {
		out = append(out, fmt.Sprintf("C04 rest follows: nobody aborted but only %d of %d handlers ran", nextEnter, total))
	}
	return
}

/**************** cxa: writes through io.StringWriter, re-dispatch from inside a handler ****************/

// cxaAct: the actions
//
//	W<t>  io.WriteString(c.Resp, chunk t)                  (for the model: `w<t>`, a write of the body)
//	Y<t>  io.Copy(c.Resp, strings.NewReader(chunk t))      (the same)
//	d     c.Router().HandleContext(c): the handler dispatches its own context again (the request is unchanged, so
//	      the SAME route's chain runs once more on the same context: Reset, match, chain, header commit), then goes
//	      on. Only the first `d` of a request re-dispatches (event D<h> ... C<h>), every later one - in particular the
//	      same action met again inside the re-entered chain - does nothing (event X<h>).
func cxaAct(cr *chainRun, pos int, a chainAct, c *rux.Context) {
	switch a.kind {
	case 'W':
		cr.add("W%d.%d", pos, a.arg)
		_, _ = io.WriteString(c.Resp, strconv.Itoa(a.arg)+";")
	case 'Y':
		cr.add("W%d.%d", pos, a.arg)
		_, _ = io.Copy(c.Resp, strings.NewReader(strconv.Itoa(a.arg)+";"))
	case 'd':
		if cr.cxaUsed {
			cr.add("X%d", pos)
			return
		}
		cr.cxaUsed = true
		cr.add("D%d", pos)
		c.Router().HandleContext(c)
		cr.add("C%d", pos)
	}
}

func cxaHasRedispatch(tr []string) bool {
	for _, e := range tr {
		if e[0] == 'D' {
			return true
		}
	}
	return false
}

// cxaOracle: the C05 clauses on a trace with a re-dispatch. A re-dispatch starts the chain anew (Reset), so
// "aborted" means: some handler aborted since the chain was last started; it stays what the re-entered chain left
// when HandleContext returns. No handler may start while aborted, every IsAborted() sample must say exactly that,
// handlers return last in, first out.
func cxaOracle(tr []string) (out []string) {
	aborted := false
	var stack []string
	for k, e := range tr {
		h := e[1:]
		if i := strings.IndexByte(h, '.'); i >= 0 {
			h = h[:i]
		}
		switch e[0] {
		case 'D':
			aborted = false
			stack = append(stack, "D"+h)
		case 'C':
			if len(stack) == 0 || stack[len(stack)-1] != "D"+h {
				out = append(out, fmt.Sprintf("C05 suspended handlers: the re-dispatch of handler %s returned while handlers of the re-entered chain were running", h))
			} else {
				stack = stack[:len(stack)-1]
			}
		case 'E':
			if aborted {
				out = append(out, fmt.Sprintf("C05 no later start: handler %s starts after an abort (event %d of %s)", h, k, strings.Join(tr, ",")))
			}
			stack = append(stack, h)
		case 'L':
			if len(stack) == 0 || stack[len(stack)-1] != h {
				out = append(out, fmt.Sprintf("C04 reverse order: handler %s returns but is not the innermost running handler", h))
			} else {
				stack = stack[:len(stack)-1]
			}
		case 'A':
			aborted = true
		case 'P':
			if got := strings.HasSuffix(e, ".1"); got != aborted {
				out = append(out, fmt.Sprintf("C05 IsAborted: handler %s saw %v, abort happened before: %v", h, got, aborted))
			}
		}
		if len(out) > 3 {
			return
		}
	}
	if len(stack) != 0 {
		out = append(out, "C05 suspended handlers: some handler never returned")
	}
	return
}

/**************** registration limit ****************/

// chainLim: NewRoute.Use(pre) ; AddRoute inside groups contributing g1+g2 middleware ; route.Use(u).
// Stops at the first refusal (a refusal is the panic "too many handlers").
func chainLim(g1, g2, pre, u, variant int) string {
	nop := func(c *rux.Context) {}
	mk := func(n int) []rux.HandlerFunc {
		hs := make([]rux.HandlerFunc, n)
		for i := range hs {
			hs[i] = nop
		}
		return hs
	}
	try := func(f func()) (ok bool, other string) {
		defer func() {
			if v := recover(); v != nil {
				ok = false
				if !strings.Contains(fmt.Sprint(v), "too many handlers") {
					other = panicClass(v)
				}
			}
		}()
		f()
		return true, ""
	}
	router := rux.New()
	route := rux.NewRoute("/x", nop, "GET")
	if ok, other := try(func() { route.Use(mk(pre)...) }); !ok {
		if other != "" {
			return other
		}
		return "reject use1"
	}
	attach := func() {
		inner := func() { router.AddRoute(route) }
		if variant&1 != 0 {
			// group middleware of the inner group through Use inside the group
			router.Group("/a", func() {
				router.Group("/b", func() {
					if g2 > 0 {
						router.Use(mk(g2)...)
					}
					inner()
				})
			}, mk(g1)...)
		} else {
			router.Group("/a", func() { router.Group("/b", inner, mk(g2)...) }, mk(g1)...)
		}
	}
	if ok, other := try(attach); !ok {
		if other != "" {
			return other
		}
		return "reject attach"
	}
	if ok, other := try(func() { route.Use(mk(u)...) }); !ok {
		if other != "" {
			return other
		}
		return "reject use2"
	}
	return fmt.Sprintf("accept %d", len(route.Handlers()))
}

/**************** Run ****************/

// Run: the case on the real router; one case in three is then run again in rux's debug mode (rux.Debug(true): it only
// prints, to gookit/color's output, which is discarded meanwhile) - every answer must be the one of the normal run.
func (chainEngine) Run(ops []string) (ans []string, oracle []string) {
	ans, oracle = chainRunOnce(ops)
	if len(ops)%3 != 0 {
		return
	}
	var dbg []string
	func() {
		color.SetOutput(io.Discard)
		rux.Debug(true)
		defer func() {
			rux.Debug(false)
			color.ResetOutput()
		}()
		dbg, _ = chainRunOnce(ops)
	}()
	for i := range ans {
		if i < len(dbg) && dbg[i] != ans[i] {
			oracle = append(oracle, fmt.Sprintf("C05 debug mode: with rux.Debug(true) op %d (%s) answers %q, otherwise %q", i, ops[i], dbg[i], ans[i]))
			break
		}
	}
	return
}

func chainRunOnce(ops []string) (ans []string, oracle []string) {
	st := &chainState{}
	for _, op := range ops {
		f := strings.Fields(op)
		a := func() (res string) {
			defer func() {
				if v := recover(); v != nil {
					res = panicClass(v)
				}
			}()
			if len(f) == 0 {
				return "bad-op"
			}
			switch {
			case f[0] == "new" && len(f) == 1:
				st = &chainState{}
				return "ok"
			case (f[0] == "g" || f[0] == "p" || f[0] == "r" || f[0] == "m") && len(f) == 2:
				acts, ok := parseChainActs(f[1])
				if !ok {
					return "bad-op"
				}
				switch f[0] {
				case "g":
					st.g = append(st.g, acts)
				case "p":
					st.p = append(st.p, acts)
				case "r":
					st.r = append(st.r, acts)
				case "m":
					st.m, st.hasMain = acts, true
				}
				st.router = nil
				return "ok"
			case f[0] == "serve" && len(f) == 2:
				v, err := strconv.Atoi(f[1])
				if err != nil || v < 0 {
					return "bad-op"
				}
				res, orc := st.serve(v)
				oracle = append(oracle, orc...)
				return res
			case f[0] == "serveh" && len(f) == 2:
				v, err := strconv.Atoi(f[1])
				if err != nil || v < 0 {
					return "bad-op"
				}
				res, orc := st.cxServe(v, cxViaHandleContext)
				oracle = append(oracle, orc...)
				return res
			case f[0] == "servef" && len(f) == 3:
				v, err := strconv.Atoi(f[1])
				k, err2 := strconv.Atoi(f[2])
				if err != nil || v < 0 || err2 != nil || k < 0 || len(f[2]) > 6 {
					return "bad-op"
				}
				res, orc := st.cxServe(v, k)
				oracle = append(oracle, orc...)
				return res
			case f[0] == "lim" && len(f) == 6:
				var n [5]int
				for i := 0; i < 5; i++ {
					v, err := strconv.Atoi(f[1+i])
					if err != nil || v < 0 {
						return "bad-op"
					}
					n[i] = v
				}
				return chainLim(n[0], n[1], n[2], n[3], n[4])
			}
			return "bad-op"
		}()
		ans = append(ans, a)
	}
	return
}

/**************** corpus ****************/

func chainCaseOf(g, p, r []string, m string, serves ...string) Case {
	ops := []string{"new"}
	for _, x := range g {
		ops = append(ops, "g "+x)
	}
	for _, x := range p {
		ops = append(ops, "p "+x)
	}
	for _, x := range r {
		ops = append(ops, "r "+x)
	}
	ops = append(ops, "m "+m)
	if len(serves) == 0 {
		serves = []string{"0"}
	}
	for _, v := range serves {
		ops = append(ops, "serve "+v)
	}
	return Case{Ops: ops}
}

func rep(s string, n int) []string {
	out := make([]string, n)
	for i := range out {
		out[i] = s
	}
	return out
}

func (chainEngine) Corpus() []Case {
	cs := []Case{
		// F11: 33 handlers, everybody calls Next() once: IsAborted() was true in handlers 0 and 1 without any abort
		chainCaseOf(rep("i0,n,i1", 10), rep("i0,n,i1", 10), rep("i0,n,i1", 12), "i0,n,i1"),
		// F11: 50 handlers, everybody calls Next() twice: index out of range [-128]
		chainCaseOf(rep("n,n", 20), rep("n,n", 9), rep("n,n", 20), "n,n,i0"),
		// the longest chain within the limit, Next() once / twice / three times, probes everywhere
		chainCaseOf(rep("i0,n,i1", 1), rep("i0,n,n,i1", 30), rep("i0,n,i1,n,n", 31), "i0,e1,i2", "0", "31"),
		// 63 handlers, nobody calls Next(): everybody is followed by the rest
		chainCaseOf(rep("e1", 21), rep("-", 21), rep("i0", 20), "i9"),
		// the non-vacuity example of Props/C05: abort after Next() in the 2nd of 5, two suspended
		chainCaseOf([]string{"e1,n,i2,e3"}, nil, []string{"e4,n,s403,n,i5,e6", "i7,n,e8", "e9"}, "e10", "0", "0"),
		// abort BEFORE Next() in the first global middleware, Next() afterwards
		chainCaseOf([]string{"a,n,e1,i2"}, []string{"e2"}, []string{"e3"}, "e4", "0", "6"),
		// abort WITHOUT Next() in a group middleware
		chainCaseOf([]string{"e1,n,i1"}, []string{"i0,t,i1"}, []string{"e3"}, "e4", "0", "2", "4"),
		// abort in the main handler, everybody suspended
		chainCaseOf([]string{"n,i1"}, []string{"n,i1"}, []string{"n,i1"}, "i0,s404,i1,n"),
		// abort in the last but one handler of a 63-chain, after its Next()
		chainCaseOf(rep("n,i1", 20), rep("n", 20), append(rep("n", 21), "e1,n,a,n,i2"), "i0"),
		// abort at position 62 (main handler) of a 63-chain and at position 0
		chainCaseOf(rep("n,i1", 30), rep("n", 2), rep("n", 30), "x500,i0"),
		chainCaseOf(rep("s401,n,i1", 1), rep("n", 31), rep("n", 30), "i0"),
		// status: committed before the abort (write, then AbortWithStatus): the abort code is not seen
		chainCaseOf([]string{"w1,s403,n"}, nil, nil, "e1"),
		chainCaseOf([]string{"c201,n,i0"}, nil, []string{"n,s500"}, "w1"),
		// status: overridden after the abort by a suspended handler; AbortWithStatus(0); with message
		chainCaseOf([]string{"n,c202"}, nil, []string{"s404"}, "e1"),
		chainCaseOf([]string{"n"}, nil, []string{"s0,i1"}, "e1"),
		chainCaseOf([]string{"n,c201"}, nil, []string{"x403,i1"}, "e1"),
		chainCaseOf([]string{"c0,n"}, nil, []string{"x0"}, "e1"),
		// a middleware that wraps c.Resp (buffering writer) around the rest of the chain: AbortWithStatus
		// below it must still determine the status
		chainCaseOf([]string{"b7,n,i1"}, nil, []string{"s403,i1"}, "e1"),
		chainCaseOf([]string{"e1,n"}, []string{"b7,n"}, []string{"n"}, "x401,n"),
		// single handler chains
		chainCaseOf(nil, nil, nil, "-"),
		chainCaseOf(nil, nil, nil, "n,n,i0,a,i1,n"),
		// a second request on the same router after an aborted one (pooled context)
		chainCaseOf([]string{"i0,n"}, []string{"a"}, nil, "e1", "0", "0", "0"),
		// registration limit
		{Ops: []string{"lim 0 0 62 0 0", "lim 0 0 63 0 0", "lim 0 0 0 62 0", "lim 0 0 0 63 0", "lim 0 0 31 31 0", "lim 0 0 31 32 0"}},
		{Ops: []string{"lim 62 0 0 0 0", "lim 63 0 0 0 0", "lim 31 31 0 0 0", "lim 31 32 0 0 1", "lim 30 1 31 0 0", "lim 30 1 32 0 1", "lim 1 0 61 0 0", "lim 1 0 62 0 0"}},
		{Ops: []string{"lim 20 20 20 2 0", "lim 20 20 20 3 1", "lim 0 0 0 0 0", "lim 0 0 64 0 0", "lim 0 0 200 0 0", "lim 100 0 0 0 0", "lim 0 62 0 0 1", "lim 0 63 0 0 1"}},
		// the client's connection is broken (every write fails) and a recovery middleware sits in front: an auth
		// middleware that rejects with AbortWithStatus(code, msg) still aborts; the handlers behind it do not start
		{Ops: []string{"new", "g R,i1", "p e1,n", "r x401,i2", "m w1,e9", "servef 0 0", "servef 6 0", "serve 0"}},
		// the connection breaks after the first write; abort with message in the main handler, after Next() of a
		// middleware, behind a buffering wrapper; no recovery middleware at all
		{Ops: []string{"new", "g w1,R,i1", "r n,x403,i1", "r i0,w2", "m x500,i3", "servef 0 1", "servef 9 2", "servef 0 0"}},
		{Ops: []string{"new", "g b7,R", "r e1,n,i1", "m x404,n", "servef 0 0", "servef 0 1"}},
		{Ops: []string{"new", "g e1,n", "r x401", "m e2", "servef 0 0", "servef 3 5"}},
		// AbortWithStatus(code) without message, the first body bytes travel through io.WriteString / io.Copy from a
		// strings.Reader (the io.StringWriter route of the writer): by the aborting handler, by a suspended one
		chainCaseOf([]string{"i0,n,i1"}, nil, []string{"s403,W1,i1"}, "e1"),
		chainCaseOf([]string{"n,Y2"}, []string{"e1,n"}, []string{"s402"}, "w1", "0", "5"),
		chainCaseOf([]string{"c201,W1,n"}, nil, nil, "s500,Y1"),
		// a handler dispatches its own context again (Router.HandleContext from inside the chain): a handler of the
		// re-entered chain aborts; the handlers behind the forwarding one must not start, IsAborted() stays true
		chainCaseOf([]string{"e1,n,i1"}, []string{"d,i1,n,i2"}, []string{"e2,n"}, "s403,i3", "0", "9"),
		// re-dispatch after the handler wrote / after its Next(); the second `d` of a request does nothing
		chainCaseOf([]string{"n,d,i1"}, nil, []string{"w1,d,n"}, "i0,a", "0"),
		chainCaseOf(nil, nil, nil, "c201,d,i0,c404", "0", "0"),
		// the second entry point Router.HandleContext, followed by ServeHTTP requests on the same router: the whole
		// chain runs every time (global, group, route middleware, main handler), also after an aborted request
		{Ops: []string{"new", "g e1,n,e2", "p e3,n", "r e4,n,i1", "m e5", "serveh 0", "serve 0", "serveh 0", "serveh 0", "serve 0"}},
		{Ops: []string{"new", "g i0,n", "r a", "m e1", "serveh 4", "serve 4", "serve 4"}},
	}
	for i := range cs {
		cs[i].Tag = "corpus"
	}
	return cs
}

/**************** generator ****************/

var chainCodes = []int{200, 201, 204, 301, 400, 401, 403, 404, 418, 500, 503, 0, 600, 799, 999}

func chainActsStr(as []string) string {
	if len(as) == 0 {
		return "-"
	}
	return strings.Join(as, ",")
}

// genAbort returns one abort action of a random kind.
func genAbort(r *Rand) string {
	switch r.Intn(8) {
	case 0, 1, 2:
		return "a"
	case 3, 4:
		return "t"
	case 5, 6:
		return "s" + strconv.Itoa(r.PickInt(chainCodes))
	default:
		return "x" + strconv.Itoa(r.PickInt(chainCodes))
	}
}

// genFiller returns 0..k harmless actions (marks, probes, now and then a status or a write).
func genFiller(r *Rand, k int, rich bool) []string {
	var out []string
	n := r.Intn(k + 1)
	for i := 0; i < n; i++ {
		switch x := r.Intn(20); {
		case x < 7:
			out = append(out, "e"+strconv.Itoa(r.Intn(10)))
		case x < 8 && r.Bool():
			out = append(out, "k"+strconv.Itoa(r.Intn(10)))
		case x < 8:
			out = append(out, "q"+strconv.Itoa(r.Intn(10)))
		case x < 16:
			out = append(out, "i"+strconv.Itoa(r.Intn(10)))
		case x < 18 && rich:
			out = append(out, "c"+strconv.Itoa(r.PickInt(chainCodes)))
		case x < 20 && rich:
			out = append(out, "w"+strconv.Itoa(r.Intn(5)))
		default:
			out = append(out, "i"+strconv.Itoa(r.Intn(10)))
		}
	}
	return out
}

// genHandler builds one handler. abortAt: 0 none, 1 before its first Next(), 2 after it, 3 without Next().
func genHandler(r *Rand, abortAt int, rich bool) string {
	var out []string
	out = append(out, genFiller(r, 2, rich)...)
	nexts := 1
	switch x := r.Intn(20); {
	case x < 3:
		nexts = 0
	case x < 6:
		nexts = 2
	case x < 7:
		nexts = 3
	}
	if abortAt == 3 {
		nexts = 0
	}
	if abortAt == 1 || abortAt == 3 {
		out = append(out, genAbort(r))
		out = append(out, genFiller(r, 1, rich)...)
	}
	for i := 0; i < nexts; i++ {
		out = append(out, "n")
		if i == 0 && abortAt == 2 {
			out = append(out, genFiller(r, 1, rich)...)
			out = append(out, genAbort(r))
		}
		out = append(out, genFiller(r, 2, rich)...)
	}
	if abortAt == 2 && nexts == 0 {
		out = append(out, genAbort(r))
	}
	if abortAt != 0 && r.Chance(1, 2) {
		out = append(out, "i"+strconv.Itoa(r.Intn(10)))
	}
	return chainActsStr(out)
}

func genChainLen(r *Rand) (int, string) {
	switch x := r.Intn(20); {
	case x < 7:
		return r.Range(1, 4), "len1-4"
	case x < 11:
		return r.Range(31, 34), "len31-34"
	case x < 16:
		return r.Range(61, 63), "len61-63"
	default:
		return r.Range(5, 60), "len5-60"
	}
}

func genLimCase(r *Rand) Case {
	n := r.Range(3, 8)
	ops := make([]string, 0, n)
	for i := 0; i < n; i++ {
		var g1, g2, pre, u int
		switch r.Intn(4) {
		case 0: // a total around the limit, split at random
			total := r.Range(59, 66)
			parts := [4]int{}
			for k := 0; k < total; k++ {
				parts[r.Intn(4)]++
			}
			if r.Chance(1, 3) { // concentrate on two parts
				parts[0] += parts[1]
				parts[1] = 0
			}
			g1, g2, pre, u = parts[0], parts[1], parts[2], parts[3]
		case 1: // one part alone at the boundary
			v := r.PickInt([]int{61, 62, 63, 64, 65, 127, 128})
			switch r.Intn(4) {
			case 0:
				g1 = v
			case 1:
				g2 = v
			case 2:
				pre = v
			default:
				u = v
			}
		case 2: // no group: the attach step does not test anything
			pre, u = r.Range(0, 63), r.Range(0, 63)
		default:
			g1, g2, pre, u = r.Range(0, 25), r.Range(0, 25), r.Range(0, 25), r.Range(0, 25)
		}
		ops = append(ops, fmt.Sprintf("lim %d %d %d %d %d", g1, g2, pre, u, r.Intn(2)))
	}
	return Case{Ops: ops, Tag: "lim"}
}

// cxFaultStream (drawn after everything else of the case; one case in four): the requests are served over a
// connection that breaks at write 0..2 (`servef`), and in two of three such cases one or two handlers that call
// Next() do it as a recovery middleware (`R`).
func cxFaultStream(r *Rand, ops []string) bool {
	if !r.Chance(1, 4) {
		return false
	}
	for i, op := range ops {
		if strings.HasPrefix(op, "serve ") {
			ops[i] = fmt.Sprintf("servef %s %d", strings.TrimPrefix(op, "serve "), r.PickInt([]int{0, 0, 0, 1, 2}))
		}
	}
	if r.Chance(2, 3) {
		var withNext []int
		for i, op := range ops {
			f := strings.Fields(op)
			if len(f) == 2 && (f[0] == "g" || f[0] == "p" || f[0] == "r") && strings.Contains(","+f[1]+",", ",n,") {
				withNext = append(withNext, i)
			}
		}
		for k, n := 0, r.Range(1, 2); k < n && len(withNext) > 0; k++ {
			// biased towards the front of the chain: a recovery middleware is registered first
			i := withNext[r.Intn(len(withNext))]
			if r.Bool() {
				i = withNext[0]
			}
			f := strings.Fields(ops[i])
			ops[i] = f[0] + " " + strings.TrimSuffix(strings.TrimPrefix(strings.Replace(","+f[1]+",", ",n,", ",R,", 1), ","), ",")
		}
	}
	return true
}

// cxaStream (drawn after everything else of the case): two scenario classes, one case in eight each.
//
//	iostr:      body writes go through io.WriteString(c.Resp, ..) / io.Copy(c.Resp, strings.NewReader(..)) instead of
//	            c.Resp.Write (two thirds of the `w` actions are rewritten), and in two of three such cases one more
//	            such write is planted right behind an AbortWithStatus(code) (when the chain has one, else anywhere);
//	redispatch: one handler (in a quarter of the cases two) calls c.Router().HandleContext(c) - before its first
//	            Next() in half of the cases, else anywhere among its actions. Not in chains with a buffering
//	            wrapper around c.Resp (Reset puts the context's own writer back).
func cxaStream(r *Rand, ops []string) (tag string) {
	var hs []int // the handler lines
	wrap := false
	for i, op := range ops {
		f := strings.Fields(op)
		if len(f) == 2 && (f[0] == "g" || f[0] == "p" || f[0] == "r" || f[0] == "m") {
			hs = append(hs, i)
			if strings.HasPrefix(f[1], "b") || strings.Contains(f[1], ",b") {
				wrap = true
			}
		}
	}
	toks := func(i int) (string, []string) {
		f := strings.Fields(ops[i])
		if f[1] == "-" {
			return f[0], nil
		}
		return f[0], strings.Split(f[1], ",")
	}
	put := func(i int, kind string, ts []string) { ops[i] = kind + " " + chainActsStr(ts) }
	ioWrite := func() string { return r.Pick([]string{"W", "Y"}) + strconv.Itoa(r.Intn(5)) }
	if r.Chance(1, 8) && len(hs) > 0 {
		tag += "-iostr"
		var withS []int
		for _, i := range hs {
			kind, ts := toks(i)
			for k, t := range ts {
				if t[0] == 'w' && r.Chance(2, 3) {
					ts[k] = r.Pick([]string{"W", "Y"}) + t[1:]
				}
				if t[0] == 's' {
					withS = append(withS, i)
				}
			}
			put(i, kind, ts)
		}
		if r.Chance(2, 3) {
			i := hs[r.Intn(len(hs))]
			if len(withS) > 0 {
				i = withS[r.Intn(len(withS))]
			}
			kind, ts := toks(i)
			at := r.Intn(len(ts) + 1)
			for k, t := range ts {
				if t[0] == 's' {
					at = k + 1
					break
				}
			}
			put(i, kind, insertAt(ts, at, ioWrite()))
		}
	}
	if r.Chance(1, 8) && len(hs) > 0 && !wrap {
		tag += "-redispatch"
		n := 1
		if r.Chance(1, 4) {
			n = 2
		}
		for ; n > 0; n-- {
			i := hs[r.Intn(len(hs))]
			kind, ts := toks(i)
			at := r.Intn(len(ts) + 1)
			if r.Bool() {
				for k, t := range ts {
					if t == "n" || t == "R" {
						at = r.Intn(k + 1)
						break
					}
				}
			}
			put(i, kind, insertAt(ts, at, "d"))
		}
	}
	return
}

// cxHandleContextStream (one case in five): one of the requests enters through Router.HandleContext (`serveh`); one
// or two more requests on the same router follow, which get the context that HandleContext put into the pool.
func cxHandleContextStream(r *Rand, ops []string) []string {
	var serves []int
	for i, op := range ops {
		if strings.HasPrefix(op, "serve ") {
			serves = append(serves, i)
		}
	}
	if len(serves) == 0 {
		return ops
	}
	i := serves[r.Intn(len(serves))]
	v := strings.TrimPrefix(ops[i], "serve ")
	ops[i] = "serveh " + v
	for k, n := 0, r.Range(1, 2); k < n; k++ {
		if r.Chance(1, 3) {
			ops = append(ops, "serveh "+v)
		} else {
			ops = append(ops, "serve "+v)
		}
	}
	return ops
}

// genLongChainCase: a request chain LONGER than the 63-handler limit of C05 (registration counts group + route
// middleware only, so enough global middleware gets there). Nobody aborts and nobody asks IsAborted() - beyond the
// limit the cursor passes abortIndex by itself, which C05 excludes - but C04 speaks about every request: all
// handlers run in order, each once, and return in reverse order.
func genLongChainCase(r *Rand) Case {
	n := r.Range(64, 100)
	if r.Chance(1, 3) {
		n = r.Range(64, 67)
	}
	PR := r.Range(0, 40)
	P := r.Intn(PR + 1)
	R := PR - P
	G := n - 1 - PR
	hs := make([]string, n)
	for i := range hs {
		var out []string
		if r.Chance(1, 3) {
			out = append(out, "e"+strconv.Itoa(r.Intn(10)))
		}
		if !r.Chance(1, 8) {
			out = append(out, "n")
			if r.Chance(1, 3) {
				out = append(out, "e"+strconv.Itoa(r.Intn(10)))
			}
		}
		hs[i] = chainActsStr(out)
	}
	ops := []string{"new"}
	for i := 0; i < G; i++ {
		ops = append(ops, "g "+hs[i])
	}
	for i := 0; i < P; i++ {
		ops = append(ops, "p "+hs[G+i])
	}
	for i := 0; i < R; i++ {
		ops = append(ops, "r "+hs[G+P+i])
	}
	ops = append(ops, "m "+hs[n-1])
	v := r.Intn(32)
	ops = append(ops, fmt.Sprintf("serve %d", v))
	if r.Chance(1, 3) {
		ops = append(ops, fmt.Sprintf("serve %d", v))
	}
	return Case{Ops: ops, Tag: "len64-100-noabort"}
}

func (chainEngine) Gen(r *Rand, tier string) Case {
	if r.Chance(1, 8) {
		return genLimCase(r)
	}
	if r.Chance(1, 16) {
		return genLongChainCase(r)
	}
	n, tag := genChainLen(r)
	// split n-1 middleware into global / group / route
	G, P, R := 0, 0, 0
	weights := [3]int{r.Intn(4), r.Intn(4), r.Intn(4)}
	if weights[0]+weights[1]+weights[2] == 0 {
		weights[r.Intn(3)] = 1
	}
	for k := 0; k < n-1; k++ {
		x := r.Intn(weights[0] + weights[1] + weights[2])
		switch {
		case x < weights[0]:
			G++
		case x < weights[0]+weights[1]:
			P++
		default:
			R++
		}
	}
	// abort plan
	abortAt := make([]int, n)
	plan := "noabort"
	switch x := r.Intn(10); {
	case x < 3:
	case x < 8:
		plan = "abort1"
		pos := r.Intn(n)
		switch r.Intn(6) { // boundary positions
		case 0:
			pos = 0
		case 1:
			pos = n - 1
		case 2:
			if n >= 2 {
				pos = n - 2
			}
		}
		abortAt[pos] = r.Range(1, 3)
	default:
		plan = "abortN"
		k := r.Range(2, 4)
		for i := 0; i < k; i++ {
			abortAt[r.Intn(n)] = r.Range(1, 3)
		}
	}
	rich := r.Chance(1, 2)
	hs := make([]string, n)
	for i := range hs {
		hs[i] = genHandler(r, abortAt[i], rich)
	}
	// a buffering wrapper around c.Resp in one handler that calls Next(): only in chains where every
	// status goes through c.Resp (AbortWithStatus), never through c.SetStatus, so that it is transparent
	if r.Chance(1, 5) {
		hasC := false
		for _, h := range hs {
			for _, tok := range strings.Split(h, ",") {
				if strings.HasPrefix(tok, "c") {
					hasC = true
				}
			}
		}
		if !hasC {
			i := r.Intn(n)
			if hs[i] == "-" {
				hs[i] = "b7,n"
			} else {
				hs[i] = "b7," + hs[i]
			}
			plan += "-wrap"
		}
	}
	ops := []string{"new"}
	for i := 0; i < G; i++ {
		ops = append(ops, "g "+hs[i])
	}
	for i := 0; i < P; i++ {
		ops = append(ops, "p "+hs[G+i])
	}
	for i := 0; i < R; i++ {
		ops = append(ops, "r "+hs[G+P+i])
	}
	ops = append(ops, "m "+hs[n-1])
	v := r.Intn(32)
	ops = append(ops, fmt.Sprintf("serve %d", v))
	if r.Chance(1, 4) { // the same router again (pooled context), or the same chain registered another way
		if r.Bool() {
			ops = append(ops, fmt.Sprintf("serve %d", v))
		} else {
			ops = append(ops, fmt.Sprintf("serve %d", r.Intn(32)))
		}
	}
	if cxFaultStream(r, ops) {
		plan += "-brokenconn"
	}
	plan += cxaStream(r, ops)
	if r.Chance(1, 5) && !strings.Contains(plan, "-redispatch") { // drawn last; a caller-prepared context has no router for the `d` action
		if n := len(ops); true {
			ops = cxHandleContextStream(r, ops)
			if len(ops) > n {
				plan += "-hc"
			}
		}
	}
	return Case{Ops: ops, Tag: tag + "-" + plan}
}
