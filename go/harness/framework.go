package main

import (
	"bufio"
	"bytes"
	"encoding/hex"
	"encoding/json"
	"fmt"
	"os"
	"os/exec"
	"regexp"
	"sort"
	"strings"
	"time"
)

// A Case is a sequence of protocol lines. The same lines are executed on the real rux code (Engine.Run)
// and sent to the Lean driver; both answer one line per op.
//
// Answer format: "<obs>" or "<obs> ;; <internal>". <obs> is what the property constrains (a difference
// there is a violation with this case as the replay); <internal> is extra model state (a difference only
// there means the correspondence is broken but no failing input is known yet).
type Case struct {
	Ops []string `json:"ops"`
	Tag string   `json:"tag"` // generator stream, for the distribution report
}

type Engine interface {
	Name() string
	// DriverEngine is the name given to the Lean driver ("" = no model side: implementation oracle only).
	DriverEngine() string
	Corpus() []Case
	Gen(r *Rand, tier string) Case
	// Run executes the ops on the implementation: one answer per op, plus oracle violations
	// (property clauses evaluated directly on the implementation's output).
	Run(ops []string) (answers []string, oracle []string)
	// Budget: number of generated cases for the tier.
	Budget(tier string) int
}

// StatsEngine is optional: counters of an engine that are reported in the evidence but never compared
// (e.g. how many requests really ran on a context reused from the sync.Pool).
type StatsEngine interface {
	Stats() map[string]int
}

var registry = map[string]Engine{}

func register(e Engine) { registry[e.Name()] = e }

/**************** hex helpers ****************/

func hx(s string) string {
	if s == "" {
		return "-"
	}
	return hex.EncodeToString([]byte(s))
}

func unhx(s string) (string, bool) {
	if s == "-" {
		return "", true
	}
	b, err := hex.DecodeString(s)
	if err != nil {
		return "", false
	}
	return string(b), true
}

func mustUnhx(s string) string {
	v, ok := unhx(s)
	if !ok {
		panic("harness: bad hex " + s)
	}
	return v
}

func hxList(xs []string) string {
	if len(xs) == 0 {
		return "-"
	}
	out := make([]string, len(xs))
	for i, x := range xs {
		out[i] = hx(x)
	}
	return strings.Join(out, ",")
}

func b2s(b bool) string {
	if b {
		return "1"
	}
	return "0"
}

// panicClass maps a recovered value to the small enum both sides print.
func panicClass(v interface{}) string {
	s := fmt.Sprint(v)
	switch {
	case strings.Contains(s, "index out of range"), strings.Contains(s, "slice bounds out of range"):
		return "panic:index"
	case strings.Contains(s, "nil pointer dereference"), strings.Contains(s, "nil map"):
		return "panic:nil"
	default:
		return "panic:msg"
	}
}

/**************** driver ****************/

type Driver struct{ Path string }

// RunCases sends all cases to one driver process and returns the answers per case.
func (d *Driver) RunCases(engine string, cases []Case) ([][]string, error) {
	var in bytes.Buffer
	for i, c := range cases {
		fmt.Fprintf(&in, "#case %d\n", i)
		for _, op := range c.Ops {
			if strings.ContainsAny(op, "\n\r") {
				return nil, fmt.Errorf("op contains newline: %q", op)
			}
			in.WriteString(op)
			in.WriteByte('\n')
		}
	}
	cmd := exec.Command(d.Path, engine)
	cmd.Stdin = &in
	var out, errb bytes.Buffer
	cmd.Stdout = &out
	cmd.Stderr = &errb
	if err := cmd.Run(); err != nil {
		return nil, fmt.Errorf("driver failed: %v: %s", err, errb.String())
	}
	res := make([][]string, len(cases))
	cur := -1
	sc := bufio.NewScanner(&out)
	sc.Buffer(make([]byte, 1<<20), 1<<26)
	for sc.Scan() {
		line := sc.Text()
		if strings.HasPrefix(line, "#case ") {
			cur++
			continue
		}
		if strings.HasPrefix(line, "#") {
			continue
		}
		if cur < 0 || cur >= len(cases) {
			return nil, fmt.Errorf("driver output out of frame: %q", line)
		}
		res[cur] = append(res[cur], line)
	}
	for i := range cases {
		n := 0
		for _, op := range cases[i].Ops {
			if !strings.HasPrefix(op, "#") {
				n++
			}
		}
		if len(res[i]) != n {
			return nil, fmt.Errorf("driver answered %d lines for case %d with %d ops", len(res[i]), i, n)
		}
	}
	return res, nil
}

/**************** comparison ****************/

type Diff struct {
	Index int    `json:"index"`
	Op    string `json:"op"`
	Impl  string `json:"impl"`
	Model string `json:"model"`
	Kind  string `json:"kind"` // "obs" (property observable differs) or "internal"
}

func splitAns(a string) (obs, internal string) {
	if i := strings.Index(a, " ;; "); i >= 0 {
		return a[:i], a[i+4:]
	}
	return a, ""
}

// realOps drops comment lines.
func realOps(ops []string) []string {
	out := make([]string, 0, len(ops))
	for _, op := range ops {
		if !strings.HasPrefix(op, "#") {
			out = append(out, op)
		}
	}
	return out
}

// firstDiff compares the implementation's and the model's answers. "unsupported" from the model skips the op.
func firstDiff(ops, impl, model []string) *Diff {
	ro := realOps(ops)
	var internal *Diff
	for i := range ro {
		if i >= len(impl) || i >= len(model) {
			return &Diff{Index: i, Op: ro[i], Impl: "<missing>", Model: "<missing>", Kind: "obs"}
		}
		if strings.HasPrefix(model[i], "unsupported") {
			continue
		}
		io, ii := splitAns(impl[i])
		mo, mi := splitAns(model[i])
		if io != mo {
			// an observable difference anywhere in the case wins over an earlier internal one
			return &Diff{Index: i, Op: ro[i], Impl: impl[i], Model: model[i], Kind: "obs"}
		}
		if ii != mi && internal == nil {
			internal = &Diff{Index: i, Op: ro[i], Impl: impl[i], Model: model[i], Kind: "internal"}
		}
	}
	return internal
}

// runImpl runs a case on the implementation with a watchdog.
func runImpl(e Engine, ops []string) (ans []string, oracle []string) {
	type res struct {
		a []string
		o []string
	}
	ch := make(chan res, 1)
	go func() {
		defer func() {
			if v := recover(); v != nil {
				ch <- res{nil, []string{"harness-level panic escaped engine: " + fmt.Sprint(v)}}
			}
		}()
		a, o := e.Run(realOps(ops))
		ch <- res{a, o}
	}()
	select {
	case r := <-ch:
		return r.a, r.o
	case <-time.After(60 * time.Second):
		return nil, []string{"hang: the implementation did not finish the case within 60s"}
	}
}

/**************** report ****************/

type Finding struct {
	Known  string   `json:"known,omitempty"` // id of the open known finding this one matches (known_findings.json)
	Engine string   `json:"engine"`
	Kind   string   `json:"kind"` // "obs", "internal", "oracle"
	Case   Case     `json:"case"`
	Impl   []string `json:"impl"`
	Model  []string `json:"model"`
	Diff   *Diff    `json:"diff,omitempty"`
	Oracle []string `json:"oracle,omitempty"`
	Seed   uint64   `json:"seed"`
}

type Report struct {
	Engine        string         `json:"engine"`
	Tier          string         `json:"tier"`
	Seed          uint64         `json:"seed"`
	Cases         int            `json:"cases"`
	Ops           int            `json:"ops"`
	DistinctCases int            `json:"distinct_cases"`
	NonTrivial    int            `json:"distinct_nontrivial"`
	Unsupported   int            `json:"unsupported"`
	Tags          map[string]int `json:"tags"`
	OpKinds       map[string]int `json:"op_kinds"`
	AnswerKinds   map[string]int `json:"answer_kinds"`
	Samples       []Finding      `json:"samples"`
	Findings      []Finding      `json:"findings"`
	WallS         float64        `json:"wall_s"`
	EngineStats   map[string]int `json:"engine_stats,omitempty"`
}

func firstWord(s string) string {
	if i := strings.IndexByte(s, ' '); i >= 0 {
		return s[:i]
	}
	return s
}

// kindWord is firstWord for the distribution report: long data words are folded into one bucket.
func kindWord(s string) string {
	s = firstWord(s)
	if len(s) > 12 {
		return "<data>"
	}
	return s
}

// check runs one batch of cases on both sides and returns the findings (unshrunk).
func checkBatch(e Engine, d *Driver, cases []Case, rep *Report, seed uint64) []Finding {
	var model [][]string
	if e.DriverEngine() != "" {
		var err error
		model, err = d.RunCases(e.DriverEngine(), cases)
		if err != nil {
			fmt.Fprintln(os.Stderr, "FATAL:", err)
			os.Exit(3)
		}
	}
	var out []Finding
	seen := map[string]bool{}
	for i, c := range cases {
		impl, oracle := runImpl(e, c.Ops)
		if rep != nil {
			rep.Cases++
			rep.Tags[c.Tag]++
			key := strings.Join(c.Ops, "\n")
			if !seen[key] {
				seen[key] = true
				rep.DistinctCases++
				if len(realOps(c.Ops)) >= 2 {
					rep.NonTrivial++
				}
			}
			for j, op := range realOps(c.Ops) {
				rep.Ops++
				rep.OpKinds[kindWord(op)]++
				if j < len(impl) {
					rep.AnswerKinds[kindWord(op)+"->"+kindWord(impl[j])]++
				}
				if model != nil && j < len(model[i]) && strings.HasPrefix(model[i][j], "unsupported") {
					rep.Unsupported++
				}
			}
			if len(rep.Samples) < 3 && i%(len(cases)/3+1) == 0 {
				var m []string
				if model != nil {
					m = model[i]
				}
				rep.Samples = append(rep.Samples, Finding{Engine: e.Name(), Kind: "sample", Case: c, Impl: impl, Model: m, Seed: seed})
			}
		}
		if len(oracle) > 0 {
			var m []string
			if model != nil {
				m = model[i]
			}
			out = append(out, Finding{Engine: e.Name(), Kind: "oracle", Case: c, Impl: impl, Model: m, Oracle: oracle, Seed: seed})
			continue
		}
		if model != nil {
			if df := firstDiff(c.Ops, impl, model[i]); df != nil {
				out = append(out, Finding{Engine: e.Name(), Kind: df.Kind, Case: c, Impl: impl, Model: model[i], Diff: df, Seed: seed})
			}
		}
	}
	return out
}

// still reports whether a (smaller) case still shows a finding of the same kind.
func still(e Engine, d *Driver, c Case, kind string) *Finding {
	fs := checkBatch(e, d, []Case{c}, nil, 0)
	if len(fs) == 1 && fs[0].Kind == kind {
		return &fs[0]
	}
	return nil
}

// shrink: greedy removal of op lines (chunks first, then single lines), keeping the finding kind.
func shrink(e Engine, d *Driver, f Finding) Finding {
	best := f
	ops := append([]string{}, f.Case.Ops...)
	budget := 400
	for chunk := len(ops) / 2; chunk >= 1; chunk /= 2 {
		for i := 0; i+chunk <= len(ops) && budget > 0; {
			cand := append(append([]string{}, ops[:i]...), ops[i+chunk:]...)
			budget--
			if len(cand) > 0 {
				if nf := still(e, d, Case{Ops: cand, Tag: f.Case.Tag}, f.Kind); nf != nil {
					ops = cand
					nf.Seed = f.Seed
					best = *nf
					continue
				}
			}
			i++
		}
	}
	return best
}

func writeJSON(path string, v interface{}) {
	b, err := json.MarshalIndent(v, "", " ")
	if err != nil {
		panic(err)
	}
	if err := os.WriteFile(path, b, 0o644); err != nil {
		panic(err)
	}
}

func sortedKeys(m map[string]int) []string {
	ks := make([]string, 0, len(m))
	for k := range m {
		ks = append(ks, k)
	}
	sort.Strings(ks)
	return ks
}

/**************** known findings ****************/

type knownEntry struct {
	Property string `json:"property"`
	ID       string `json:"id"`
	Status   string `json:"status"`
	Match    struct {
		Engine      string `json:"engine"`
		Kind        string `json:"kind"`
		OracleRegex string `json:"oracle_regex"`
		DiffOpRegex string `json:"diff_op_regex"`
		OpsRegex    string `json:"ops_regex"`
		ImplRegex   string `json:"impl_regex"`
	} `json:"match"`
}

var knownList []knownEntry

func loadKnown(path string) {
	b, err := os.ReadFile(path)
	if err != nil {
		return
	}
	var f struct {
		Findings []knownEntry `json:"findings"`
	}
	if json.Unmarshal(b, &f) == nil {
		for _, k := range f.Findings {
			if k.Status == "open" {
				knownList = append(knownList, k)
			}
		}
	}
}

// knownID returns the id of the open known finding that matches f ("" if none). Matching is structural
// (regexes over the oracle text / the differing op), so a different violation is still reported.
func knownID(f Finding) string {
	for _, k := range knownList {
		m := k.Match
		if m.Engine != "" && m.Engine != f.Engine {
			continue
		}
		if m.Kind != "" && m.Kind != f.Kind {
			continue
		}
		if m.OracleRegex != "" {
			ok := false
			for _, o := range f.Oracle {
				if regexp.MustCompile(m.OracleRegex).MatchString(o) {
					ok = true
				}
			}
			// every oracle line of the case must be explained by this entry
			for _, o := range f.Oracle {
				if !regexp.MustCompile(m.OracleRegex).MatchString(o) {
					ok = false
				}
			}
			if !ok {
				continue
			}
		}
		if m.DiffOpRegex != "" && (f.Diff == nil || !regexp.MustCompile(m.DiffOpRegex).MatchString(f.Diff.Op)) {
			continue
		}
		if m.ImplRegex != "" && (f.Diff == nil || !regexp.MustCompile(m.ImplRegex).MatchString(f.Diff.Impl)) {
			continue
		}
		if m.OpsRegex != "" && !regexp.MustCompile(m.OpsRegex).MatchString(strings.Join(f.Case.Ops, "\n")) {
			continue
		}
		return k.ID
	}
	return ""
}
