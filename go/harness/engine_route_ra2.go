package main

import (
	"fmt"
	"net/url"
	"strings"
)

// Streams enc / hist / rereg / long of the engines route / rcache (see the list in engine_route_ra.go), the op `rereg`
// and the escaped request paths of UseEncodedPath routers.

// raEscapedURL returns the URL of a request whose escaped path (URL.EscapedPath(), what a router with UseEncodedPath
// looks up) is exactly p; false when no request has that escaped path (bytes net/url would escape, bad escapes).
func raEscapedURL(p string) (*url.URL, bool) {
	un, err := url.PathUnescape(p)
	if err != nil {
		return nil, false
	}
	u := &url.URL{Path: un, RawPath: p}
	if u.EscapedPath() != p {
		return nil, false
	}
	return u, true
}

// raRereg is the op `rereg`: AddRoute with the very *rux.Route value an earlier `reg` op of the case registered
// (main router and twin each get their own value again).
func (im *routeImpl) raRereg(id int) string {
	pr, ok := im.raRegs[id]
	if !ok || pr[0] == nil {
		return "noroute"
	}
	a := guarded(func() string {
		withGlobalVars(im.raGvars, func() { im.r.AddRoute(pr[0]) })
		return "ok"
	})
	if strings.HasPrefix(a, "panic") {
		a = "reject"
	}
	if im.twin != nil && pr[1] != nil {
		guarded(func() string {
			withGlobalVars(im.raGvars, func() { im.twin.AddRoute(pr[1]) })
			return ""
		})
	}
	return a
}

// vv adds a variable with its own regex and value lists.
func (b *raB) vv(spec string, vals, bad []string) *raB {
	b.nvar++
	name := fmt.Sprintf("p%d", b.nvar)
	b.sb.WriteString("{" + fmt.Sprintf(spec, name) + "}")
	b.levels[len(b.levels)-1] = append(b.levels[len(b.levels)-1], piece{v: &genVar{name, vals, bad}})
	return b
}

/**************** enc ****************/

var raEncPlain = []string{"John%20Doe", "a%2Fb", "%E5%BC%A0", "100%25", "x", "a%2fb", "%41bc", "a+b", "a%3Fb", "%25", "%2F", "12"}

func (e routeEngine) raGenEnc(r *Rand, tier string) Case {
	hdr, tag := e.raHeaderWith(r, "enc", 128)
	ops := []string{hdr}
	segs := append([]string{}, raFirstSegs...)
	r.Shuffle(len(segs), func(i, j int) { segs[i], segs[j] = segs[j], segs[i] })
	var routes []genRoute
	n := r.Range(1, 3)
	for id := 1; id <= n; id++ {
		b := newRaB()
		base := "/" + segs[id]
		switch r.Intn(7) {
		case 0:
			b.lit(base+"/").vv("%s", raEncPlain, []string{""})
		case 1:
			b.lit(base+"/").vv("%s", raEncPlain, []string{""}).lit("/posts/").vv("%s:\\d+", []string{"12", "7"}, []string{"a", "%31", ""})
		case 2:
			b.lit(base+"/").vv("%s:(?:%%[0-9A-F]{2})+", []string{"%E5%BC%A0", "%41", "%2F%25"}, []string{"abc", "%4", "%zz", "%e5"})
		case 3:
			b.lit("/").vv("%s", raEncPlain, []string{""})
		case 4:
			b.lit(base+"/").vv("%s:.+", []string{"a%2Fb/c", "x/%20", "a", "%25/%2F"}, []string{""})
		case 5:
			b.lit(base+"/").vv("%s", raEncPlain, []string{""}).open().lit("/").vv("%s", raEncPlain, nil)
		default:
			b.lit(base+"/f-").vv("%s:[^.]+", []string{"a%20b", "%2F", "x"}, []string{"a.b", ""}).lit(".html")
		}
		g := b.route(id, raMethods(r, r.Pick([]string{"GET", "GET", "POST", "PUT"})))
		routes = append(routes, g)
		ops = append(ops, raRegLine(r, g))
	}
	ops = e.raProbes(r, tier, routes, ops)
	// a `serve` op needs a path that is the escaped path of some request; the others go through QuickMatch only.
	// Most lookups of this stream are served: the handler's view of the parameters is what the stream is about.
	for i, op := range ops {
		f := strings.Fields(op)
		if len(f) != 3 || (f[0] != "serve" && f[0] != "q") {
			continue
		}
		_, ok := raEscapedURL(mustUnhx(f[2]))
		switch {
		case f[0] == "serve" && !ok:
			ops[i] = "q " + f[1] + " " + f[2]
		case f[0] == "q" && ok && r.Chance(1, 2):
			ops[i] = "serve " + f[1] + " " + f[2]
		}
	}
	return Case{Ops: ops, Tag: tag}
}

/**************** hist ****************/

func (e routeEngine) raGenHist(r *Rand, tier string) Case {
	force := 8 | r.PickInt([]int{4, 2, 6, 6})
	hdr, tag := e.raHeaderWith(r, "hist", force)
	ops := []string{hdr}
	hasFallback := force&2 != 0
	first := r.Pick(raFirstSegs)
	var routes []genRoute
	id := 0
	add := func(g genRoute) {
		routes = append(routes, g)
		ops = append(ops, raRegLine(r, g))
	}
	// dynamic routes for GET (sometimes one more method), no HEAD route
	var dyn []genRoute
	for i := r.Range(1, 2); i > 0; i-- {
		id++
		b := newRaB()
		switch r.Intn(4) {
		case 0:
			b.lit("/" + first + "/").v(0)
		case 1:
			b.lit("/" + first + "/").v(0).lit("/").v(raKind(r))
		case 2:
			b.lit("/" + first).open().lit("/").v(0)
		default:
			b.lit("/").v(1)
		}
		ms := []string{"GET"}
		if r.Chance(1, 4) {
			ms = append(ms, r.Pick([]string{"PUT", "DELETE"}))
		}
		g := b.route(id, ms)
		dyn = append(dyn, g)
		add(g)
	}
	if r.Chance(1, 6) { // a HEAD route of its own on one of the patterns
		id++
		g := dyn[0]
		g.id, g.methods = id, []string{"HEAD"}
		add(g)
	}
	// '/*' routes for some methods only, one route per method (or one route for two methods)
	if hasFallback {
		fms := []string{"GET", "HEAD", "POST", "PUT"}
		r.Shuffle(len(fms), func(i, j int) { fms[i], fms[j] = fms[j], fms[i] })
		fms = fms[:r.Range(1, 3)]
		if r.Chance(1, 5) && len(fms) >= 2 {
			id++
			ops = append(ops, regOp(id, fms[:2], "/*", false))
			fms = fms[2:]
		}
		for _, m := range fms {
			id++
			ops = append(ops, regOp(id, []string{m}, "/*", false))
		}
	}
	// histories: several requests for one path under different methods
	methods := []string{"GET", "HEAD", "POST", "OPTIONS", "PUT", "DELETE", "GET", "HEAD"}
	nPaths := r.Range(3, 6)
	if tier == "thorough" {
		nPaths = r.Range(4, 12)
	}
	var paths []string
	for i := 0; i < nPaths; i++ {
		var path string
		switch {
		case len(paths) > 0 && r.Chance(1, 4): // an earlier path again (it may still be cached, or evicted by now)
			path = paths[r.Intn(len(paths))]
		case r.Chance(1, 3): // no dynamic route matches
			path = r.Pick([]string{"/nope/page", "/" + first + "/x/y/z/w", "/zz", "/" + first})
		default:
			path = dyn[r.Intn(len(dyn))].instance(r, r.Chance(5, 6))
		}
		paths = append(paths, path)
		r.Shuffle(len(methods), func(i, j int) { methods[i], methods[j] = methods[j], methods[i] })
		for _, m := range methods[:r.Range(2, 4)] {
			op := "q"
			if r.Chance(1, 3) {
				op = "serve"
			}
			ops = append(ops, op+" "+hx(m)+" "+hx(path))
			if r.Chance(1, 4) {
				ops = append(ops, "ckeys")
			}
		}
	}
	ops = append(ops, "ckeys")
	return Case{Ops: ops, Tag: tag}
}

/**************** rereg ****************/

func (e routeEngine) raGenRereg(r *Rand, tier string) Case {
	hdr, tag := e.raHeader(r, "rereg")
	ops := []string{hdr}
	first := r.Pick(raFirstSegs)
	var routes []genRoute
	var again []int // ids of accepted dynamic routes with variables
	n := r.Range(1, 4)
	for id := 1; id <= n; id++ {
		var g genRoute
		if o, ok := raOrdinary(r, id, []string{first}); ok && r.Bool() {
			g = o
		} else {
			b := newRaB().lit("/" + first + "/")
			switch r.Intn(4) {
			case 0:
				b.v(raKind(r))
			case 1:
				b.v(0).lit("/").v(raKind(r))
			case 2:
				b.v(1).open().lit("/").v(0)
			default:
				b.lit("u-").v(0).lit(".html")
			}
			g = b.route(id, raMethods(r, r.Pick([]string{"GET", "GET", "POST"})))
		}
		routes = append(routes, g)
		ops = append(ops, raRegLine(r, g))
		again = append(again, id)
		if r.Chance(1, 3) { // right after its registration
			ops = append(ops, fmt.Sprintf("rereg %d", id))
		}
	}
	// a few lookups (and cache entries), then the second registrations, then the same lookups again
	ops = e.raProbes(r, "quick", routes, ops)
	if ops[len(ops)-1] == "ckeys" {
		ops = ops[:len(ops)-1]
	}
	k := r.Range(1, 3)
	for i := 0; i < k; i++ {
		id := again[r.Intn(len(again))]
		if r.Chance(1, 10) {
			id = 90 + r.Intn(5) // no such registration
		}
		ops = append(ops, fmt.Sprintf("rereg %d", id))
	}
	return Case{Ops: e.raProbes(r, tier, routes, ops), Tag: tag}
}

/**************** long ****************/

func raLongValue(r *Rand, n int) string {
	unit := r.Pick([]string{"a", "ab1-", "x.y_", "0123456789"})
	return strings.Repeat(unit, n/len(unit)+1)[:n]
}

func (e routeEngine) raGenLong(r *Rand, tier string) Case {
	hdr, tag := e.raHeaderWith(r, "long", 8)
	ops := []string{hdr}
	method := r.Pick([]string{"GET", "GET", "POST", "DELETE"})
	b := newRaB()
	prefix := ""
	switch r.Intn(3) {
	case 0:
		prefix = "/files/"
		b.lit(prefix).v(0)
	case 1:
		prefix = "/"
		b.lit(prefix).v(0)
	default:
		prefix = "/d/v-"
		b.lit(prefix).v(0)
	}
	g := b.route(1, []string{method})
	ops = append(ops, raRegLine(r, g))
	if r.Chance(1, 3) {
		ops = append(ops, regOp(2, []string{method}, "/s/{p1:\\d+}/{p2}", false))
	}
	// the key of the cache is method+path: lengths around 512/513 and up to the 600 byte paths the model evaluates
	var paths []string
	for i := r.Range(2, 4); i > 0; i-- {
		keyLen := r.PickInt([]int{505, 510, 511, 512, 513, 514, 515, 520, 560, 590})
		n := keyLen - len(method) - len(prefix)
		if len(prefix)+n > 600 {
			n = 600 - len(prefix)
		}
		paths = append(paths, prefix+raLongValue(r, n))
	}
	paths = append(paths, prefix+"short", "/s/12/"+raLongValue(r, 40))
	nReq := r.Range(6, 14)
	for i := 0; i < nReq; i++ {
		p := paths[r.Intn(len(paths))]
		m := method
		if r.Chance(1, 8) {
			m = "HEAD"
		}
		op := "q"
		if r.Chance(1, 3) {
			op = "serve"
		}
		ops = append(ops, op+" "+hx(m)+" "+hx(p), "ckeys")
		if r.Chance(1, 2) { // the immediate repeat
			ops = append(ops, op+" "+hx(m)+" "+hx(p), "ckeys")
		}
	}
	if r.Chance(1, 3) { // beyond what the model evaluates: the implementation-side oracles only
		p := prefix + raLongValue(r, 5000)
		ops = append(ops, "q "+hx(method)+" "+hx(p), "q "+hx(method)+" "+hx(p), "ckeys")
	}
	return Case{Ops: ops, Tag: tag}
}

/**************** url engine: values with empty inner segments, bare keys named like a variable ****************/

// raSlashyValue: for a variable whose regex accepts '/', sometimes a value with an empty inner segment.
func raSlashyValue(r *Rand, v *genVar, picked string) string {
	slashy := false
	for _, x := range v.vals {
		if strings.Contains(x, "/") {
			slashy = true
		}
	}
	if slashy && r.Chance(1, 3) {
		return r.Pick([]string{"css//site.css", "x///y", "a//b/c", "//a"})
	}
	return picked
}

// raBareKeys: additional (query) arguments whose key is spelled like a variable of the route, without braces.
func raBareKeys(r *Rand, g genRoute, kvs []string) []string {
	if !r.Chance(1, 3) {
		return kvs
	}
	for _, p := range g.levels[0] {
		if p.v != nil && r.Bool() {
			kvs = append(kvs, hx(p.v.name)+"="+hx(r.Pick([]string{"42", "q", "a b", ""})))
		}
	}
	return kvs
}

func raCorpus2(engine string) []Case {
	g, p := "GET", "POST"
	q := func(m, path string) string { return "q " + hx(m) + " " + hx(path) }
	sv := func(m, path string) string { return "serve " + hx(m) + " " + hx(path) }
	cx := func(hdr string) Case { // custom regexes of several groups
		return Case{Ops: []string{hdr, regOp(1, nil, "/range/{span:(?:\\d+)-(?:\\d+)}", false), regOp(2, nil, "/lang/{code:(?:en)|(?:de)}", false),
			regOp(3, nil, "/go/{ver:(?:\\d+)\\.(?:\\d+)}/dl", false), regOp(4, nil, "/one/{id:(?:\\d+)}", false),
			q(g, "/range/12-34"), q(g, "/range/12"), q(g, "/lang/de"), q(g, "/lang/en"), q(g, "/lang/ende"), sv(g, "/go/1.20/dl"), q(g, "/go/1x20/dl"), q(g, "/one/7"), sv(g, "/lang/de")}}
	}
	enc := func(hdr string) Case {
		return Case{Ops: []string{hdr, regOp(1, nil, "/users/{name}/posts/{id:\\d+}", false), regOp(2, nil, "/files/{name}", false), regOp(3, nil, "/tags/{tag:(?:%[0-9A-F]{2})+}", false),
			sv(g, "/users/John%20Doe/posts/12"), sv(g, "/files/a%2Fb"), sv(g, "/files/a%2Fb"), q(g, "/files/a%2Fb"), sv(g, "/tags/%E5%BC%A0"), sv(g, "/files/100%25"), sv(g, "/files/plain"), q(g, "/files/a b")}}
	}
	hist := func(hdr string) Case {
		return Case{Ops: []string{hdr, regOp(1, []string{g}, "/users/{id}", false), regOp(2, []string{g}, "/*", false), regOp(3, []string{"HEAD"}, "/*", false),
			sv("HEAD", "/users/7"), sv(p, "/users/7"), sv("OPTIONS", "/users/7"), q(p, "/users/7"), "ckeys",
			sv(g, "/nope/page"), sv("HEAD", "/nope/page"), sv(p, "/nope/page"), q("HEAD", "/nope/page"), "ckeys", sv(g, "/users/8"), sv("HEAD", "/users/8"), q("PUT", "/users/8"), "ckeys"}}
	}
	rereg := func(hdr string) Case {
		return Case{Ops: []string{hdr, regOp(1, nil, "/users/{id:\\d+}", false), regOp(2, nil, "/{name}", false), regOp(3, nil, "/a/{x}/{y}", false), q(g, "/users/12"),
			"rereg 1", q(g, "/users/12"), sv(g, "/users/12"), "rereg 2", "rereg 2", q(g, "/jerry"), "rereg 3", sv(g, "/a/1/2"), q(g, "/a/1"), "rereg 9", q(g, "/users/13")}}
	}
	switch engine {
	case "route":
		return []Case{cx("new 0 0 -"), enc("new 128 0 -"), hist("new 14 2 -"), hist("new 10 3 -"), rereg("new 0 0 -")}
	case "rcache":
		long := func(n int) string { return "/files/" + strings.Repeat("a", n) }
		return []Case{cx("new 8 3 -"), enc("new 136 3 -"), hist("new 14 4 -"), hist("new 12 1 -"), rereg("new 8 3 -"),
			// keys (method+path) of 512, 513 and 603 bytes: the resolved request is the most recent entry, its repeat a hit
			{Ops: []string{"new 8 3 -", regOp(1, nil, "/files/{name}", false), regOp(2, nil, "/{name}", false),
				q(g, long(502)), "ckeys", q(g, long(503)), "ckeys", q(g, long(503)), "ckeys", sv(g, long(593)), "ckeys", q(g, "/"+strings.Repeat("b", 520)), "ckeys", q(g, long(502)), "ckeys"}},
		}
	case "total":
		return []Case{rereg("new 0 0 -"), rereg("new 5 0 -")}
	}
	return nil
}
