package main

import (
	"fmt"
	"path"
	"path/filepath"
	"strings"
	"unicode/utf8"
)

// engine clean (C17): the Lean model of path.Clean on rooted paths (and of the small library functions
// the static-file flow uses: utf8.ValidString, path.Base, filepath.Split) against the real Go functions.
type cleanEngine struct{}

func init() { register(cleanEngine{}) }

func (cleanEngine) Name() string         { return "clean" }
func (cleanEngine) DriverEngine() string { return "clean" }

func (cleanEngine) Budget(tier string) int {
	if tier == "thorough" {
		return 12000 // x ~50 ops = 6*10^5 strings
	}
	return 2400 // x ~50 ops > 10^5 strings
}

func (cleanEngine) Corpus() []Case {
	mk := func(kind string, xs ...string) Case {
		ops := make([]string, len(xs))
		for i, x := range xs {
			ops[i] = kind + " " + hx(x)
		}
		return Case{Ops: ops}
	}
	return []Case{
		mk("clean", "", "/", "//", ".", "..", "../..", "a/..", "a/../..", "a/./b/../../c", "a//b", "a/b/", "/a/b",
			"../../../etc/passwd", "a/..a/a../...", "..a/..", "%2e%2e/x", "a\\..\\b", "a\x00/../b", "a/.../..", "./.",
			"a.css/.", "a.css/./", "css/../../www-private/secret.css", "x/.\x00", ". /..", "../", "..//", "a/../../b.css"),
		mk("cleanabs", "/", "//", "/..", "/a/../..", "/a/b/../c/./d/", "/./", "/a//b"),
		mk("utf8", "", "a", "\xc2\x85", "\xc2", "\xc0\x80", "\xe0\x80\x80", "\xe0\xa0\x80", "\xed\x9f\xbf", "\xed\xa0\x80",
			"\xef\xbf\xbd", "\xf0\x8f\xbf\xbf", "\xf0\x90\x80\x80", "\xf4\x8f\xbf\xbf", "\xf4\x90\x80\x80", "\xf5\x80\x80\x80",
			"\xff", "a\x80", "\xe2\x80", "\xe2\x80\xa8x", "\xf0\x9f\x98\x80", "\xf0\x9f\x98"),
		mk("base", "", "/", "//", "a", "/a/", "/a/./", "/a/b//", ".", "/.", "a/..", "/a.css/./"),
		mk("split", "", "/", "a", "/a", "/a/", "/a/b", "a/b/c.css", "//", "/a/..", "/srv/box/www/a.css"),
	}
}

var cleanSegPool = []string{"", "", ".", ".", "..", "..", "..", "a", "b.c", "..a", "a..", "...", "%2e%2e", "\\", "\x00", " ", "a.css",
	".css", "index.html", "\xff", "\xc3\xa9", "..\\..", ".\x00", "a\x00b", "..%2f", "www", "www-private", "secret.css", "~", "a b", "\n", "..\n"}

func genCleanString(r *Rand) string {
	switch r.Intn(10) {
	case 0: // arbitrary bytes over a small alphabet
		n := r.Range(0, 12)
		b := make([]byte, n)
		alpha := []byte{'/', '/', '/', '.', '.', '.', 'a', 'b', '\\', 0, '%', ' ', 0xff}
		for i := range b {
			b[i] = alpha[r.Intn(len(alpha))]
		}
		return string(b)
	case 1: // arbitrary bytes
		n := r.Range(0, 8)
		b := make([]byte, n)
		for i := range b {
			b[i] = byte(r.Intn(256))
		}
		return string(b)
	default:
		n := r.Range(0, 9)
		segs := make([]string, n)
		for i := range segs {
			segs[i] = cleanSegPool[r.Intn(len(cleanSegPool))]
		}
		s := strings.Join(segs, "/")
		if r.Chance(1, 4) {
			s = "/" + s
		}
		return s
	}
}

var utf8Pieces = []string{"a", "/", ".", "\x00", "\x7f", "\xc2\x80", "\xc2\x85", "\xdf\xbf", "\xe0\xa0\x80", "\xe1\x9a\x80", "\xe2\x80\xa8",
	"\xed\x9f\xbf", "\xee\x80\x80", "\xef\xbf\xbd", "\xf0\x90\x80\x80", "\xf1\x80\x80\x80", "\xf4\x8f\xbf\xbf",
	// invalid
	"\x80", "\xbf", "\xc0\x80", "\xc1\xbf", "\xc2", "\xe0\x80\x80", "\xe0\x9f\xbf", "\xed\xa0\x80", "\xed\xbf\xbf", "\xe2\x80", "\xf0\x8f\xbf\xbf",
	"\xf4\x90\x80\x80", "\xf5\x80\x80\x80", "\xf0\x9f\x98", "\xff", "\xfe"}

func genUtf8String(r *Rand) string {
	if r.Chance(1, 5) {
		n := r.Range(0, 6)
		b := make([]byte, n)
		for i := range b {
			b[i] = byte(r.PickInt([]int{0x41, 0x7f, 0x80, 0x8f, 0x90, 0x9f, 0xa0, 0xbf, 0xc0, 0xc1, 0xc2, 0xdf, 0xe0, 0xe1, 0xec, 0xed, 0xee, 0xef, 0xf0, 0xf1, 0xf3, 0xf4, 0xf5, 0xff}))
		}
		return string(b)
	}
	n := r.Range(0, 5)
	var sb strings.Builder
	for i := 0; i < n; i++ {
		sb.WriteString(utf8Pieces[r.Intn(len(utf8Pieces))])
	}
	return sb.String()
}

func (cleanEngine) Gen(r *Rand, tier string) Case {
	n := r.Range(30, 70)
	ops := make([]string, 0, n)
	for i := 0; i < n; i++ {
		switch x := r.Intn(20); {
		case x < 11:
			ops = append(ops, "clean "+hx(genCleanString(r)))
		case x < 13:
			ops = append(ops, "cleanabs "+hx("/"+genCleanString(r)))
		case x < 16:
			ops = append(ops, "utf8 "+hx(genUtf8String(r)))
		case x < 18:
			ops = append(ops, "base "+hx(genCleanString(r)))
		default:
			ops = append(ops, "split "+hx(genCleanString(r)))
		}
	}
	return Case{Ops: ops, Tag: "strings"}
}

// properSeg: an element that may occur in a cleaned rooted path.
func properSeg(s string) bool { return s != "" && s != "." && s != ".." }

func (cleanEngine) Run(ops []string) (ans []string, oracle []string) {
	for _, op := range ops {
		f := strings.Fields(op)
		a := func() (res string) {
			defer func() {
				if v := recover(); v != nil {
					res = panicClass(v)
				}
			}()
			if len(f) != 2 {
				return "bad-op"
			}
			s := mustUnhx(f[1])
			switch f[0] {
			case "clean", "cleanabs":
				in := "/" + s
				if f[0] == "cleanabs" {
					in = s
				}
				c := path.Clean(in)
				// the clauses of C17_clean_rooted evaluated on the real function
				if !strings.HasPrefix(c, "/") {
					oracle = append(oracle, fmt.Sprintf("C17 clean: path.Clean(%q)=%q is not rooted", in, c))
				}
				if c != "/" {
					for _, seg := range strings.Split(c[1:], "/") {
						if !properSeg(seg) {
							oracle = append(oracle, fmt.Sprintf("C17 clean: path.Clean(%q)=%q has the element %q", in, c, seg))
						}
					}
				}
				if c2 := path.Clean(c); c2 != c {
					oracle = append(oracle, fmt.Sprintf("C17 clean: path.Clean is not idempotent on %q: %q then %q", in, c, c2))
				}
				return hx(c)
			case "utf8":
				return b2s(utf8.ValidString(s))
			case "base":
				return hx(path.Base(s))
			case "split":
				d, b := filepath.Split(s)
				return hx(d) + " " + hx(b)
			}
			return "bad-op"
		}()
		ans = append(ans, a)
	}
	return
}
