package main

import (
	"fmt"
	"strings"

	"github.com/gookit/rux"
)

// engine lru (C14): operation histories against the real cachedRoutes, through its exported methods and
// the verif accessor VerifKeys() (recency order).
type lruEngine struct{}

func init() { register(lruEngine{}) }

func (lruEngine) Name() string         { return "lru" }
func (lruEngine) DriverEngine() string { return "lru" }

func (lruEngine) Budget(tier string) int {
	if tier == "thorough" {
		return 20000
	}
	return 1500
}

func (lruEngine) Corpus() []Case {
	cs := lruCorpusBase()
	// keys that collide under common 32-bit hash functions: the cache is indexed by the KEY
	for _, pr := range collidingSuffixes("GET/u/") {
		k1, k2 := hx("GET/u/"+pr[0]), hx("GET/u/"+pr[1])
		cs = append(cs, Case{Ops: []string{"new 4", "set " + k1 + " 1", "get " + k2, "has " + k2, "set " + k2 + " 2", "get " + k1, "get " + k2, "keys", "len",
			"del " + k2, "get " + k1, "has " + k2, "keys", "len"}, Tag: "corpus-collide"})
	}
	return cs
}

func lruCorpusBase() []Case {
	return []Case{
		{Ops: []string{"new 2", "set 61 1", "set 62 2", "get 61", "set 63 3", "keys", "len", "has 62", "del 63", "keys"}},
		{Ops: []string{"new 0", "set 61 1", "len", "keys", "get 61"}},
		{Ops: []string{"new 1", "set 61 1", "set 61 2", "get 61", "set 62 3", "keys", "del 61", "del 62", "len"}},
		// fill, refresh the oldest by Set, insert: the refreshed key must survive
		{Ops: []string{"new 3", "set 61 1", "set 62 2", "set 63 3", "set 61 4", "set 64 5", "keys", "get 62", "get 61"}},
		// refresh by Has
		{Ops: []string{"new 2", "set 61 1", "set 62 2", "has 61", "set 63 3", "keys"}},
		// refresh by a Get / Has that overlaps with a reader of the cache: the key read survives the next insert
		{Ops: []string{"new 2", "set 61 1", "set 62 2", "rget 61", "keys", "set 63 3", "keys", "get 61", "get 62"}, Tag: "corpus-held"},
		{Ops: []string{"new 2", "set 61 1", "set 62 2", "rhas 61", "set 63 3", "keys", "rget 64", "rhas 64", "rget 62", "keys"}, Tag: "corpus-held"},
		{Ops: []string{"new 3", "set 61 1", "set 62 2", "set 63 3", "rget 62", "rget 61", "set 64 4", "keys", "rget 63", "len"}, Tag: "corpus-held"},
		{Ops: []string{"new 0", "rget 61", "set 61 1", "rget 61", "rhas 61", "keys"}, Tag: "corpus-held"},
	}
}

func (lruEngine) Gen(r *Rand, tier string) Case {
	cap := r.PickInt([]int{0, 1, 1, 2, 2, 3, 3, 4, 5})
	nkeys := r.Range(1, 8)
	if tier == "thorough" && r.Chance(1, 5) {
		cap = r.Range(0, 12)
		nkeys = r.Range(1, 16)
	}
	keys := make([]string, nkeys)
	for i := range keys {
		switch r.Intn(4) {
		case 0:
			keys[i] = fmt.Sprintf("GET/u/%d", i)
		case 1:
			keys[i] = string([]byte{byte('a' + i)})
		case 2:
			keys[i] = "" + strings.Repeat("k", i)
		default:
			keys[i] = fmt.Sprintf("k%d", r.Intn(nkeys))
		}
	}
	n := r.Range(3, 60)
	if tier == "thorough" {
		n = r.Range(3, 200)
	}
	ops := []string{fmt.Sprintf("new %d", cap)}
	val := 0
	for i := 0; i < n; i++ {
		k := hx(keys[r.Intn(nkeys)])
		switch x := r.Intn(20); {
		case x < 8:
			val++
			ops = append(ops, fmt.Sprintf("set %s %d", k, val))
		case x < 12:
			ops = append(ops, lruHeldOp(r, "get")+" "+k)
		case x < 14:
			ops = append(ops, lruHeldOp(r, "has")+" "+k)
		case x < 16:
			ops = append(ops, "del "+k)
		case x < 17:
			ops = append(ops, "len")
		default:
			ops = append(ops, "keys")
		}
	}
	ops = append(ops, "keys", "len")
	return Case{Ops: ops, Tag: fmt.Sprintf("cap%d", min(cap, 6))}
}

func min(a, b int) int {
	if a < b {
		return a
	}
	return b
}

func (lruEngine) Run(ops []string) (ans []string, oracle []string) {
	c := rux.NewCachedRoutes(0)
	size := 0
	vals := map[*rux.Route]int{}
	for _, op := range ops {
		f := strings.Fields(op)
		a := func() (res string) {
			defer func() {
				if v := recover(); v != nil {
					res = panicClass(v)
				}
			}()
			switch f[0] {
			case "new":
				size = atoi(f[1])
				c = rux.NewCachedRoutes(size)
				vals = map[*rux.Route]int{}
				return "ok"
			case "set":
				rt := rux.NewRoute("/v", nil)
				vals[rt] = atoi(f[2])
				if !c.Set(mustUnhx(f[1]), rt) {
					return "false"
				}
				return "ok"
			case "get":
				rt, ok := c.Get(mustUnhx(f[1]))
				if !ok {
					if rt != nil {
						return "none-with-route"
					}
					return "none"
				}
				return fmt.Sprintf("some %d", vals[rt])
			case "has":
				return b2s(c.Has(mustUnhx(f[1])))
			case "rget", "rhas": // the same calls while another goroutine is inside a read section of the cache
				lk := lruLockOf(c) // nil: the lock cannot be reached, the call is made without the overlap
				k := mustUnhx(f[1])
				if f[0] == "rhas" {
					var has bool
					lruWhileRead(lk, func() { has = c.Has(k) })
					return b2s(has)
				}
				var rt *rux.Route
				var ok bool
				lruWhileRead(lk, func() { rt, ok = c.Get(k) })
				if !ok {
					if rt != nil {
						return "none-with-route"
					}
					return "none"
				}
				return fmt.Sprintf("some %d", vals[rt])
			case "del":
				return b2s(c.Delete(mustUnhx(f[1])))
			case "len":
				return fmt.Sprint(c.Len())
			case "keys":
				return hxList(c.VerifKeys())
			}
			return "bad-op"
		}()
		ans = append(ans, a)
		// implementation-side oracle: bounded, index and list agree
		if n := c.Len(); n > size {
			oracle = append(oracle, fmt.Sprintf("C14 bounded: Len()=%d > capacity %d after %q", n, size, op))
		}
		if c.VerifMapLen() != c.Len() {
			oracle = append(oracle, fmt.Sprintf("C14 index/list mismatch: map=%d list=%d after %q", c.VerifMapLen(), c.Len(), op))
		}
	}
	return
}
