package main

import (
	"context"
	"errors"
	"fmt"
	"io"
	"net/http"
	"net/http/httptest"
	"reflect"
	"runtime"
	"sort"
	"strconv"
	"strings"
	"sync"

	"github.com/gookit/rux"
	"github.com/gookit/rux/pkg/handlers"
)

// Engines `panic` (C09) and `ctx` (C10): request histories on ONE real rux.Router, served sequentially through
// Router.ServeHTTP, against the Lean dispatch model (driver engine `dispatch`, protocol in Drv/Dispatch.lean).
//
// Handlers are built from action lists; every handler records what it does and sees into a per-request trace,
// a recording http.ResponseWriter logs every WriteHeader/Write that reaches it.  The answer to a `serve` op is
//     <ret | panic:<value>> t=<trace> l=<writer log> ;; pr=<0|1>
// `pr=1` (internal) means: a context whose request ended with a propagated panic was handed out again.
//
// Implementation-side oracles (independent of the model):
//   * fresh-router oracle (C09 "stays usable", C10 statement): every request is also sent as the FIRST request
//     to a freshly built identical router; both answers must be equal;
//   * pristine oracle (C10): a dump taken by the first action of the first handler must show a pristine context;
//   * containment oracles (C09): hook installed => ServeHTTP returns, the hook ran exactly once, it can read the
//     recovered value, nothing of the chain runs after the panic, the header is committed exactly once;
//     no hook => the same value reaches the caller.
//
// Second entry point: `serveh …` is `serve …` dispatched through Router.HandleContext(c) with a context prepared by
// the caller (c.Init(w, req)) instead of ServeHTTP.  The context is a Copy() of a context this router handed out
// before (so that it knows its router, as a pooled one does); as long as the router has not handed one out, and on
// the fresh twin, the request goes through ServeHTTP.  Both entry points must give the same answer: the model
// does not distinguish them.
//
// Kept copies: the action `kc` keeps a Context.Copy() beyond the request (not observable by the request itself:
// the model drops the token).  Oracle (C10 / C03): from the end of its request on, the copy holds exactly the
// data and params it held then, whatever later requests do with the pooled context.
//
// sync.Pool may or may not hand a context out again (it is free to drop items, and does so at random under
// -race); nothing here assumes reuse: the oracles hold for new and for reused contexts alike.  The number of
// requests that really ran on a reused context is counted (pointer identity) and reported as engine stats.

/**************** engine stats (pointer identity never goes into obs) ****************/

var dispStats = struct {
	sync.Mutex
	m map[string]int
}{m: map[string]int{}}

func dispStat(k string, n int) {
	dispStats.Lock()
	dispStats.m[k] += n
	dispStats.Unlock()
}

/**************** actions ****************/

type dact struct {
	op   string
	a, b string // decoded byte-string arguments
	n    int
	pv   string // panic value in wire form
}

func parseActs(tok string) (acts []dact, ph bool, ok bool) {
	if tok == "PH" {
		return nil, true, true
	}
	if tok == "-" {
		return nil, false, true
	}
	for _, s := range strings.Split(tok, ",") {
		f := strings.Split(s, ":")
		d := dact{op: f[0]}
		bad := false
		arg := func(i int) string {
			if i >= len(f) {
				bad = true
				return ""
			}
			return f[i]
		}
		hexArg := func(i int) string {
			v, o := unhx(arg(i))
			if !o {
				bad = true
			}
			return v
		}
		intArg := func(i int) int {
			v, err := strconv.Atoi(arg(i))
			if err != nil {
				bad = true
			}
			return v
		}
		switch f[0] {
		case "em", "ss", "wh", "rr", "rq":
			d.n = intArg(1)
		case "sh", "nr":
			d.n = dxNatArg(arg(1), &bad)
		case "hj":
		case "nx", "ab", "dp", "kc", "qv", "cx":
		case "pn":
			d.pv = arg(1)
		case "st", "sp":
			d.a, d.b = hexArg(1), hexArg(2)
		case "ae", "wr", "gt":
			d.a = hexArg(1)
		case "aw": // c.AbortWithStatus(code)
			d.n = intArg(1)
		case "rd": // c.Render(200, view, nil) through the router's Renderer: view 0 renders, view 1 fails half way
			d.n = intArg(1)
			if d.n != 0 && d.n != 1 {
				bad = true
			}
		case "jp": // c.JSONP(200, "cb", v): v encodes fine (0) or its MarshalJSON panics (1)
			d.n = intArg(1)
			if d.n != 0 && d.n != 1 {
				bad = true
			}
		case "am": // c.AbortWithStatus(code, msg)
			d.n, d.a = intArg(1), hexArg(2)
		default:
			bad = true
		}
		if bad {
			return nil, false, false
		}
		acts = append(acts, d)
	}
	return acts, false, true
}

// the value a `pn:<pv>` action panics with (nil = provoke a runtime error instead)
func panicValue(pv string) (v interface{}, rt string, ok bool) {
	switch {
	case pv == "rn":
		return nil, "rn", true
	case pv == "ri":
		return nil, "ri", true
	case strings.HasPrefix(pv, "s."):
		s, o := unhx(pv[2:])
		return s, "", o
	case strings.HasPrefix(pv, "e."):
		s, o := unhx(pv[2:])
		return errors.New(s), "", o
	case strings.HasPrefix(pv, "i."):
		n, err := strconv.Atoi(pv[2:])
		return n, "", err == nil
	case strings.HasPrefix(pv, "h."), strings.HasPrefix(pv, "w."):
		e, o := dxErrValue(pv)
		return e, "", o
	}
	return nil, "", false
}

// wire form of a recovered / stored panic value
func encPanic(v interface{}) string {
	switch x := v.(type) {
	case string:
		return "s." + hx(x)
	case runtime.Error:
		if panicClass(x) == "panic:index" {
			return "ri"
		}
		if panicClass(x) == "panic:nil" {
			return "rn"
		}
		return "r?"
	case error:
		return "e." + hx(x.Error())
	case int:
		return "i." + strconv.Itoa(x)
	}
	return "?"
}

func encAny(v interface{}) string {
	switch x := v.(type) {
	case string:
		return "S" + hx(x)
	case []string:
		out := make([]string, len(x))
		for i, s := range x {
			out[i] = hx(s)
		}
		return "L" + strings.Join(out, "/")
	}
	return "P" + encPanic(v)
}

/**************** dx: panic values that are error sentinels; the SetHandlers action ****************/

// Error values a handler can panic with, beside errors.New texts: the sentinels of net/http, io and context that
// real handlers raise (httputil.ReverseProxy and http.TimeoutHandler panic with http.ErrAbortHandler), bare
// (`h.<name>.<hex of Error()>`) or wrapped with %w (`w.<name>.<hex of Error()>`).  The model is value-agnostic:
// for it such a value is an error with that text (Drv/Dispatch.lean), so both sides print it as `e.<hex>`.
var dxSentinels = map[string]error{
	"abort":    http.ErrAbortHandler,
	"bodyna":   http.ErrBodyNotAllowed,
	"hijacked": http.ErrHijacked,
	"closed":   http.ErrServerClosed,
	"eof":      io.EOF,
	"ueof":     io.ErrUnexpectedEOF,
	"canceled": context.Canceled,
	"deadline": context.DeadlineExceeded,
}

var dxSentinelNames = []string{"abort", "abort", "abort", "bodyna", "hijacked", "closed", "eof", "ueof", "canceled", "deadline"}

func dxErrValue(pv string) (error, bool) {
	p := strings.Split(pv, ".")
	if len(p) != 3 {
		return nil, false
	}
	e := dxSentinels[p[1]]
	if e == nil {
		return nil, false
	}
	if p[0] == "w" {
		e = fmt.Errorf("upstream copy: %w", e)
	}
	if msg, ok := unhx(p[2]); !ok || msg != e.Error() {
		return nil, false
	}
	return e, true
}

// dxPV renders the wire form of a sentinel value.
func dxPV(kind, name string) string {
	e := dxSentinels[name]
	if kind == "w" {
		e = fmt.Errorf("upstream copy: %w", e)
	}
	return kind + "." + name + "." + hx(e.Error())
}

// dxCanonPV: what the trace shows for a planted panic value (the new forms as the error they are).
func dxCanonPV(pv string, v interface{}) string {
	if strings.HasPrefix(pv, "h.") || strings.HasPrefix(pv, "w.") {
		return encPanic(v)
	}
	return pv
}

func dxNatArg(s string, bad *bool) int {
	if s == "" || len(s) > 6 {
		*bad = true
		return 0
	}
	n := 0
	for _, ch := range s {
		if ch < '0' || ch > '9' {
			*bad = true
			return 0
		}
		n = n*10 + int(ch-'0')
	}
	return n
}

func dxIsSH(tok string) bool {
	p := strings.Split(tok, ":")
	if len(p) != 2 || p[0] != "sh" {
		return false
	}
	bad := false
	dxNatArg(p[1], &bad)
	return !bad
}

// dxHasSH: some handler token contains a well-formed `sh:<id>` action.
func dxHasSH(toks []string) bool {
	for _, t := range toks {
		for _, a := range strings.Split(t, ",") {
			if dxIsSH(a) {
				return true
			}
		}
	}
	return false
}

func (cs *dcase) dxKeepRoute(id int, rr *rux.Route) {
	if cs.dxRR == nil {
		cs.dxRR = map[int]*rux.Route{}
	}
	cs.dxRR[id] = rr
}

// dxSetHandlers is the action `sh:<id>`: c.SetHandlers(route.Handlers()) with the middleware chain of a registered
// route - a slice that lives as long as the router. The context then carries the router's own slice; whatever a
// later request does with this pooled context must not reach that slice (nothing if the route is unknown).
func (cs *dcase) dxSetHandlers(c *rux.Context, id int) {
	if rr := cs.dxRR[id]; rr != nil {
		if !cs.isTwin {
			dispStat("sethandlers_calls", 1)
		}
		c.SetHandlers(rr.Handlers())
	}
}

/**************** recording writer ****************/

type dispRecWriter struct {
	cs  *dcase
	seq int // request number (own writers), 0 for writers installed by handlers
	alt int
	hdr http.Header

	written int // body bytes accepted so far
}

func (w *dispRecWriter) tag() string {
	if w.seq == 0 {
		return "a" + strconv.Itoa(w.alt)
	}
	if w.seq == w.cs.seq {
		return "u"
	}
	return "x"
}
func (w *dispRecWriter) Header() http.Header { return w.hdr }
func (w *dispRecWriter) WriteHeader(code int) {
	w.cs.log = append(w.cs.log, "WH:"+w.tag()+":"+strconv.Itoa(code))
}
func (w *dispRecWriter) Write(b []byte) (int, error) {
	// like the writer of a net/http server: once a Content-Length is declared, body bytes beyond it are refused
	// (http.ErrContentLength).  Nothing in these engines declares one, so on the unchanged rux this never triggers.
	if cl := w.hdr.Get("Content-Length"); cl != "" {
		if n, err := strconv.Atoi(cl); err == nil && w.written+len(b) > n {
			w.cs.log = append(w.cs.log, "WX:"+w.tag()+":"+hx(string(b)))
			return 0, http.ErrContentLength
		}
	}
	w.written += len(b)
	w.cs.log = append(w.cs.log, "W:"+w.tag()+":"+hx(string(b)))
	return len(b), nil
}

/**************** one router + its history ****************/

type droute struct {
	id      int
	shape   string
	grouped bool
	nMw     int // group + route middleware
}

type dcase struct {
	router   *rux.Router
	cfgOps   []string // configuration ops so far (to build the fresh twin)
	mna      bool
	nGlobals int
	routes   map[int]*droute
	hook     bool
	hookActs []dact
	anyPH    bool

	seq    int
	trace  []string
	log    []string
	curReq *http.Request
	curRec *dispRecWriter
	// in one case in three the front of the router recycles its ResponseWriter OBJECT: every second request arrives
	// with the same writer value as the request before (re-pointed: new number, empty header map)
	recycleRec bool
	curCtx     *rux.Context
	altReqs    map[*http.Request]int
	actions    int // actions executed in the current request
	expData    map[string]string
	expParam   string
	expErr     []string        // the errors the handlers of the current request recorded with `ae`, in order (hex)
	allAe      map[string]bool // every error text an `ae` action of this case has recorded so far
	oracle     []string
	isTwin     bool
	ctxSeen    map[*rux.Context]bool
	ctxLost    map[*rux.Context]bool
	lostSeen   bool
	lastCtx    *rux.Context       // a context this router handed out before (source of the contexts given to HandleContext)
	dxRR       map[int]*rux.Route // the registered routes by id (targets of the `sh` action)
	dn         dnState            // nested requests (action `nr`), see engine_dispatch_dn.go
	kept       []*dKept           // copies kept by `kc`
}

// dKept is a Context.Copy() that a handler kept beyond its request.
type dKept struct {
	cp       *rux.Context
	seq      int    // request that took it
	snap     string // what it held when that request ended ("" = request still running)
	reported bool
}

func showKept(c *rux.Context) string {
	data := map[string]string{}
	for k, v := range c.Data() {
		data[k] = encAny(v)
	}
	for k, want := range data {
		if v, ok := c.Get(k); !ok || encAny(v) != want || encAny(c.SafeGet(k)) != want {
			data[k] = want + "!get"
		}
	}
	return "d{" + encStrMap(data) + "}p{" + encParams(c.Params) + "}"
}

// checkKept: every copy whose request is over still holds what it held when the request ended.
func (cs *dcase) checkKept() {
	for _, k := range cs.kept {
		if k.reported {
			continue
		}
		if k.snap == "" {
			k.snap = showKept(k.cp)
			continue
		}
		if now := showKept(k.cp); now != k.snap {
			k.reported = true
			cs.oracle = append(cs.oracle, fmt.Sprintf("C10 kept copy: the Copy() taken in request %d held %s when that request ended, after request %d it holds %s",
				k.seq, k.snap, cs.seq, now))
		}
	}
}

func newDcase() *dcase {
	return &dcase{routes: map[int]*droute{}, ctxSeen: map[*rux.Context]bool{}, ctxLost: map[*rux.Context]bool{},
		altReqs: map[*http.Request]int{}}
}

func (cs *dcase) tr(s string) { cs.trace = append(cs.trace, s) }

func encStrMap(m map[string]string) string {
	ks := make([]string, 0, len(m))
	for k := range m {
		ks = append(ks, k)
	}
	sort.Strings(ks)
	out := make([]string, len(ks))
	for i, k := range ks {
		out[i] = hx(k) + "=" + m[k]
	}
	return strings.Join(out, "+")
}

func encParams(p rux.Params) string {
	if p == nil {
		return "nil"
	}
	m := map[string]string{}
	for k, v := range p {
		m[k] = hx(v)
	}
	return encStrMap(m)
}

// ownWriterOf reports whether w is the address of c's embedded responseWriter (field `writer`).
func ownWriterOf(c *rux.Context, w http.ResponseWriter) bool {
	rv := reflect.ValueOf(w)
	if rv.Kind() != reflect.Ptr {
		return false
	}
	f := reflect.ValueOf(c).Elem().FieldByName("writer")
	if !f.IsValid() || !f.CanAddr() {
		return false
	}
	return rv.Pointer() == f.UnsafeAddr()
}

func (cs *dcase) dump(c *rux.Context) string {
	data := map[string]string{}
	for k, v := range c.Data() {
		data[k] = encAny(v)
	}
	errs := make([]string, len(c.Errors))
	var mine []string
	for i, e := range c.Errors {
		errs[i] = hx(e.Error())
		if cs.allAe[errs[i]] {
			mine = append(mine, errs[i])
		}
	}
	// the errors recorded with c.AddError by THIS request's handlers, in order - not those of a request that is in
	// flight at the same time (a nested one, or the one this one is nested in)
	if !cs.isTwin && c == cs.curCtx && strings.Join(mine, "+") != strings.Join(cs.expErr, "+") {
		cs.oracle = append(cs.oracle, fmt.Sprintf("C10 errors: request %d recorded the errors [%s] with AddError, its context lists [%s]", cs.seq, strings.Join(cs.expErr, "+"), strings.Join(mine, "+")))
	}
	resp := "x"
	switch {
	case c.Resp == nil:
		resp = "n"
	case ownWriterOf(c, c.Resp):
		resp = "o"
	default:
		if rw, ok := c.Resp.(*dispRecWriter); ok && rw.seq == 0 {
			resp = "a" + strconv.Itoa(rw.alt)
		}
	}
	req := "x"
	switch {
	case c.Req == nil:
		req = "n"
	case c.Req == cs.curReq:
		req = "o"
	default:
		if id, ok := cs.altReqs[c.Req]; ok {
			req = "a" + strconv.Itoa(id)
		}
	}
	raw := "x"
	switch {
	case c.RawWriter() == nil:
		raw = "n"
	case c.RawWriter() == http.ResponseWriter(cs.curRec):
		raw = "o"
	}
	return "d{" + encStrMap(data) + "}p{" + encParams(c.Params) + "}e{" + strings.Join(errs, "+") + "}a" + b2s(c.IsAborted()) +
		"s" + strconv.Itoa(c.StatusCode()) + "l" + strconv.Itoa(c.Length()) + "r" + resp + "q" + req + "w" + raw +
		"R" + b2s(c.Router() == cs.router)
}

func (cs *dcase) pristine() string {
	return "d{" + encStrMap(cs.expData) + "}p{" + cs.expParam + "}e{}a0s0l-1roqowoR1"
}

var zeroIdx = 0

func (cs *dcase) runActs(c *rux.Context, acts []dact, pos string) {
	if cs.curCtx == nil {
		cs.curCtx = c
		cs.dnInFlight(c)
	} else if cs.curCtx != c && !cs.isTwin {
		cs.oracle = append(cs.oracle, "harness: two different contexts within one request")
	}
	for _, a := range acts {
		if a.op == "kc" {
			if !cs.isTwin {
				cs.kept = append(cs.kept, &dKept{cp: c.Copy(), seq: cs.seq})
				dispStat("kept_copies", 1)
			}
			continue
		}
		if a.op == "qv" {
			// the handler reads the URL query through the context and then edits the map it was given (url.Values is a
			// map: `q.Set`, `q.Del` on one's own parsed copy is ordinary code).  Every request of these engines carries
			// the same raw query; what a handler reads is what ITS request carries, not what an earlier handler left.
			if !cs.isTwin {
				q := c.QueryValues()
				one, _ := c.QueryParam("page")
				if got := q.Encode() + "|" + c.Query("token") + "|" + one; got != "page=1&token=abc|abc|1" {
					cs.oracle = append(cs.oracle, fmt.Sprintf("C10 request %d with the raw query %q reads the query values %q through its context (an earlier reader's edits?)", cs.seq, c.Req.URL.RawQuery, got))
				}
				q.Set("page", "2")
				q.Del("token")
				q.Add("extra", "x")
				dispStat("query_reads", 1)
			}
			continue
		}
		if a.op == "cx" {
			// the request gets a derived context.Context that is cancelled when this handler returns or is unwound by a
			// panic (`defer cancel()`, what a timeout middleware does); nothing rux does afterwards (the hooks, the commit of
			// the response) may depend on it
			kctx, cancel := context.WithCancel(c.Req.Context())
			nr := c.Req.WithContext(kctx)
			if id, ok := cs.altReqs[c.Req]; ok {
				cs.altReqs[nr] = id
			} else if c.Req == cs.curReq {
				cs.curReq = nr
			}
			c.Req = nr
			defer cancel()
			dispStat("cancelled_request_contexts", 1)
			continue
		}
		first := cs.actions == 0
		cs.actions++
		switch a.op {
		case "em":
			cs.tr("M" + pos + "." + strconv.Itoa(a.n))
		case "nx":
			c.Next()
		case "pn":
			v, rt, _ := panicValue(a.pv)
			cs.tr("P" + pos + "." + dxCanonPV(a.pv, v))
			switch rt {
			case "rn":
				var m map[string]int
				m["x"] = 1
			case "ri":
				var s []int
				_ = s[len(s)+zeroIdx]
			default:
				panic(v)
			}
		case "sh":
			cs.dxSetHandlers(c, a.n)
		case "nr":
			cs.dnNested(c, a.n, pos)
		case "hj":
			cs.dnHijack(c, pos)
		case "st":
			c.Set(a.a, a.b)
		case "ae":
			c.AddError(errors.New(a.a))
			cs.expErr = append(cs.expErr, hx(a.a))
			if cs.allAe == nil {
				cs.allAe = map[string]bool{}
			}
			cs.allAe[hx(a.a)] = true
		case "sp":
			if c.Params == nil {
				cs.tr("P" + pos + ".rn") // the assignment below raises the runtime error
			}
			c.Params[a.a] = a.b
		case "ab":
			c.Abort()
		case "ss":
			c.SetStatus(a.n)
		case "wr":
			c.WriteBytes([]byte(a.a))
		case "wh":
			c.Resp.WriteHeader(a.n)
		case "aw":
			c.AbortWithStatus(a.n)
		case "rd":
			_ = c.Render(200, []string{"ok", "fail"}[a.n], nil)
		case "jp":
			if a.n == 0 {
				c.JSONP(200, "cb", struct {
					N int `json:"n"`
				}{1})
			} else {
				c.JSONP(200, "cb", dispPanicJSON{func() {
					cs.tr("P" + pos + ".s." + hx("mj"))
					panic("mj")
				}})
			}
		case "am":
			c.AbortWithStatus(a.n, a.a)
		case "rr":
			c.Resp = &dispRecWriter{cs: cs, alt: a.n, hdr: http.Header{}}
		case "rq":
			nr := c.Req.WithContext(context.WithValue(c.Req.Context(), dctxKey{}, a.n))
			cs.altReqs[nr] = a.n
			c.Req = nr
		case "gt":
			v, ok := c.Get(a.a)
			if ok {
				cs.tr("G" + pos + "." + hx(a.a) + "=" + encAny(v))
			} else {
				cs.tr("G" + pos + "." + hx(a.a) + "=none")
			}
		case "dp":
			d := cs.dump(c)
			cs.tr("D" + pos + "." + d)
			if first && pos == "0" && !cs.isTwin {
				dispStat("first_handler_dumps", 1)
				if want := cs.pristine(); d != want {
					cs.oracle = append(cs.oracle, fmt.Sprintf("C10 pristine: request %d starts with context %s, a pristine one is %s", cs.seq, d, want))
				}
			}
		}
	}
}

type dctxKey struct{}

// the template renderer of the routers of this engine: the view "ok" renders, every other view writes a part of its
// output and fails
type dispRenderer struct{}

func (dispRenderer) Render(w io.Writer, name string, _ any, _ *rux.Context) error {
	if name == "ok" {
		_, _ = io.WriteString(w, "<p>ok</p>")
		return nil
	}
	_, _ = io.WriteString(w, "<h1>part")
	return errors.New("view failed")
}

// a value whose MarshalJSON panics (a handler that dies while a response helper is encoding)
type dispPanicJSON struct{ f func() }

func (d dispPanicJSON) MarshalJSON() ([]byte, error) { d.f(); return []byte("0"), nil }

// dxJSONPStream (drawn after everything else of the case; one case in six): handlers answer through c.JSONP, and
// half of the planted panics happen INSIDE the helper (the value's MarshalJSON panics after the helper has written
// `cb(`). For the model `jp:0` = SetStatus(200) + the three writes of the JSONP renderer, `jp:1` = SetStatus(200) +
// the first write + the panic. Only `use` / `route` / `notfound` / `notallowed` lines in front of the first request.
func dxJSONPStream(r *Rand, ops []string) ([]string, bool) {
	if !r.Chance(1, 6) {
		return ops, false
	}
	out := append([]string{}, ops...)
	for i, op := range out {
		if strings.HasPrefix(op, "serve") {
			break
		}
		f := strings.Fields(op)
		first := 0
		switch f[0] {
		case "use", "notfound", "notallowed":
			first = 1
		case "route":
			first = 4
		default:
			continue
		}
		for j := first; j < len(f); j++ {
			if f[j] == "PH" {
				continue
			}
			toks := []string{}
			if f[j] != "-" {
				toks = strings.Split(f[j], ",")
			}
			skip := false
			for k, t := range toks {
				if t == "hj" || strings.HasPrefix(t, "sh:") || strings.HasPrefix(t, "nr:") {
					skip = true
				}
				if strings.HasPrefix(t, "pn:") && r.Bool() {
					toks[k] = "jp:1"
				}
			}
			if !skip && r.Chance(1, 3) {
				toks = insertAt(toks, r.Intn(len(toks)+1), r.Pick([]string{"jp:0", "jp:0", "rd:0", "rd:1", "rd:1"}))
			}
			if len(toks) > 0 {
				f[j] = strings.Join(toks, ",")
			}
		}
		out[i] = strings.Join(f, " ")
	}
	return out, true
}

// chain handler at (dynamic) chain position idx()
func (cs *dcase) chainHandler(acts []dact, idx func() int) rux.HandlerFunc {
	return func(c *rux.Context) {
		p := strconv.Itoa(idx())
		cs.tr("E" + p)
		cs.runActs(c, acts, p)
		cs.tr("L" + p)
	}
}

func (cs *dcase) simpleHandler(acts []dact, pos, enter, leave string) rux.HandlerFunc {
	return func(c *rux.Context) {
		cs.tr(enter)
		cs.runActs(c, acts, pos)
		cs.tr(leave)
	}
}

func (cs *dcase) mkChain(toks []string, base func() int, off int) ([]rux.HandlerFunc, bool) {
	var out []rux.HandlerFunc
	for j, t := range toks {
		acts, ph, ok := parseActs(t)
		if !ok {
			return nil, false
		}
		if ph {
			cs.anyPH = true
			out = append(out, handlers.PanicsHandler())
			continue
		}
		k := off + j
		out = append(out, cs.chainHandler(acts, func() int { return base() + k }))
	}
	return out, true
}

func routeURL(rt *droute, v1, v2 string) string {
	g := ""
	if rt.grouped {
		g = "/g"
	}
	n := strconv.Itoa(rt.id)
	switch rt.shape {
	case "s":
		return g + "/s" + n
	case "d1":
		return g + "/d" + n + "/" + v1
	case "d2":
		return g + "/e" + n + "/" + v1 + "/x/" + v2
	default:
		return g + "/" + v1 + "/i" + n
	}
}

func routePattern(rt *droute) string {
	n := strconv.Itoa(rt.id)
	switch rt.shape {
	case "s":
		return "/s" + n
	case "d1":
		return "/d" + n + "/{p}"
	case "d2":
		return "/e" + n + "/{p}/x/{q}"
	default:
		return "/{p}/i" + n
	}
}

// config applies one configuration op; "" = not a configuration op
func (cs *dcase) config(f []string) string {
	globalsBase := func() int { return 0 }
	afterGlobals := func() int { return cs.nGlobals }
	if f[0] != "route" && (dxHasSH(f[1:]) || dnHasHJ(f[1:])) {
		return "bad-op" // SetHandlers actions live in route handlers only (see Drv/Dispatch.lean)
	}
	switch f[0] {
	case "new":
		if len(f) != 3 {
			return "bad-op"
		}
		var opts []func(*rux.Router)
		if f[1] == "1" {
			opts = append(opts, rux.EnableCaching, rux.MaxNumCaches(4))
		}
		if f[2] == "1" {
			opts = append(opts, rux.HandleMethodNotAllowed)
			cs.mna = true
		}
		cs.router = rux.New(opts...)
		cs.router.Renderer = dispRenderer{}
		return "ok"
	case "use":
		if len(f) != 2 || cs.router == nil {
			return "bad-op"
		}
		hs, ok := cs.mkChain(f[1:], globalsBase, cs.nGlobals)
		if !ok {
			return "bad-op"
		}
		cs.router.Use(hs...)
		cs.nGlobals++
		return "ok"
	case "route":
		if len(f) < 5 || cs.router == nil {
			return "bad-op"
		}
		id, e1 := strconv.Atoi(f[1])
		ng, e2 := strconv.Atoi(f[3])
		toks := f[4:]
		if e1 != nil || e2 != nil || ng >= len(toks) || ng < 0 {
			return "bad-op"
		}
		switch f[2] {
		case "s", "d1", "d2", "ir":
		default:
			return "bad-op"
		}
		if _, dup := cs.routes[id]; dup {
			return "bad-op" // the generators never register an id twice (rux keeps the first of two equal routes)
		}
		rt := &droute{id: id, shape: f[2], grouped: ng > 0, nMw: len(toks) - 1}
		hs, ok := cs.mkChain(toks, afterGlobals, 0)
		if !ok {
			return "bad-op"
		}
		main := hs[len(hs)-1]
		var rr *rux.Route
		if ng > 0 {
			cs.router.Group("/g", func() {
				rr = cs.router.GET(routePattern(rt), main, hs[ng:len(hs)-1]...)
			}, hs[:ng]...)
		} else {
			rr = cs.router.GET(routePattern(rt), main, hs[:len(hs)-1]...)
		}
		cs.dxKeepRoute(id, rr)
		cs.routes[id] = rt
		return "ok"
	case "notfound", "notallowed":
		if len(f) < 2 || cs.router == nil {
			return "bad-op"
		}
		hs, ok := cs.mkChain(f[1:], afterGlobals, 0)
		if !ok {
			return "bad-op"
		}
		if f[0] == "notfound" {
			cs.router.NotFound(hs...)
		} else {
			cs.router.NotAllowed(hs...)
		}
		return "ok"
	case "onerror", "onpanic":
		if len(f) != 2 || cs.router == nil {
			return "bad-op"
		}
		acts, ph, ok := parseActs(f[1])
		if !ok || ph {
			return "bad-op"
		}
		for _, a := range acts {
			if a.op == "nx" {
				return "bad-op"
			}
		}
		if f[0] == "onerror" {
			cs.router.OnError = cs.simpleHandler(acts, "o", "OE", "OL")
		} else {
			cs.router.OnPanic = cs.simpleHandler(acts, "h", "HE", "HL")
			cs.hook = true
			cs.hookActs = acts
		}
		return "ok"
	case "nopanic":
		if len(f) != 1 || cs.router == nil {
			return "bad-op"
		}
		cs.router.OnPanic = nil
		cs.hook = false
		return "ok"
	}
	return ""
}

// request resolves a serve op to method, URL and what a pristine context holds for it
func (cs *dcase) request(f []string) (method, url string, ok bool) {
	cs.expData = map[string]string{}
	cs.expParam = "nil"
	cs.expErr = nil
	if len(f) == 0 || (f[0] != "serve" && f[0] != "serveh") {
		return "", "", false
	}
	if len(f) == 3 && f[1] == "nf" {
		return "GET", "/nf" + f[2], true
	}
	if len(f) != 5 || (f[1] != "r" && f[1] != "na") {
		return "", "", false
	}
	id, err := strconv.Atoi(f[2])
	rt := cs.routes[id]
	v1, o1 := unhx(f[3])
	v2, o2 := unhx(f[4])
	if err != nil || rt == nil || !o1 || !o2 {
		return "", "", false
	}
	url = routeURL(rt, v1, v2)
	if f[1] == "na" {
		if cs.mna {
			cs.expData[rux.CTXAllowedMethods] = "L" + hx("GET")
		}
		return "POST", url, true
	}
	cs.expData[rux.CTXCurrentRouteName] = "S-"
	cs.expData[rux.CTXCurrentRoutePath] = "S" + hx(url)
	switch rt.shape {
	case "d1", "ir":
		cs.expParam = encStrMap(map[string]string{"p": hx(v1)})
	case "d2":
		cs.expParam = encStrMap(map[string]string{"p": hx(v1), "q": hx(v2)})
	}
	return "GET", url, true
}

func joinOrDash(xs []string) string {
	if len(xs) == 0 {
		return "-"
	}
	return strings.Join(xs, ",")
}

func (cs *dcase) serve(f []string) string {
	method, url, ok := cs.request(f)
	if !ok || cs.router == nil {
		return "bad-op"
	}
	cs.seq++
	cs.trace, cs.log, cs.actions, cs.curCtx = nil, nil, 0, nil
	cs.dn = dnState{}
	cs.curReq = httptest.NewRequest(method, url, nil)
	if cs.curReq.URL.RawQuery == "" {
		cs.curReq.URL.RawQuery = "page=1&token=abc"
	}
	if cs.seq%4 == 0 { // every fourth request looks like a WebSocket handshake (nothing in these engines upgrades)
		cs.curReq.Header.Set("Connection", "Upgrade")
		cs.curReq.Header.Set("Upgrade", "websocket")
	}
	if cs.recycleRec && cs.curRec != nil && cs.curRec.seq != 0 && cs.seq%2 == 0 && !cs.isTwin {
		*cs.curRec = dispRecWriter{cs: cs, seq: cs.seq, hdr: http.Header{}}
		dispStat("recycled_writer_objects", 1)
	} else {
		cs.curRec = &dispRecWriter{cs: cs, seq: cs.seq, hdr: http.Header{}}
	}
	outcome := "ret"
	func() {
		defer func() {
			if v := recover(); v != nil {
				outcome = "panic:" + encPanic(v)
			}
		}()
		if f[0] == "serveh" && !cs.isTwin && cs.lastCtx != nil {
			dispStat("requests_through_HandleContext", 1)
			c := cs.lastCtx.Copy()
			c.Errors = nil // Copy() shares the array of Errors with the pooled context it was taken from
			c.Init(cs.curRec, cs.curReq)
			cs.router.HandleContext(c)
		} else {
			cs.router.ServeHTTP(cs.curRec, cs.curReq)
		}
	}()
	if cs.curCtx != nil {
		cs.lastCtx = cs.curCtx
	}
	if !cs.isTwin {
		cs.checkKept()
	}
	if c := cs.curCtx; c != nil && !cs.isTwin {
		dispStat("requests_with_user_handler", 1)
		if cs.ctxSeen[c] {
			dispStat("requests_on_reused_context", 1)
		}
		if cs.ctxLost[c] {
			cs.lostSeen = true
		}
		cs.ctxSeen[c] = true
		if outcome != "ret" {
			cs.ctxLost[c] = true
		}
	}
	return outcome + " t=" + joinOrDash(cs.trace) + " l=" + joinOrDash(cs.log)
}

/**************** C09 containment oracles, evaluated on the implementation's own answer ****************/

func isChainEvent(e string) bool {
	if len(e) < 2 {
		return false
	}
	switch e[0] {
	case 'E', 'L':
		return e[1] >= '0' && e[1] <= '9'
	case 'M', 'G', 'D', 'P':
		return e[1] >= '0' && e[1] <= '9'
	}
	return false
}

func (cs *dcase) containment(outcome string) {
	if cs.dn.used {
		return // a nested request ran inside this one (its events are in the same trace) or the connection was hijacked
	}
	if cs.anyPH {
		return // an in-chain PanicsHandler recovers first; its behaviour is compared with the model only
	}
	// the first panic that starts outside the hook
	first, val := -1, ""
	for i, e := range cs.trace {
		if e[0] == 'P' && !strings.HasPrefix(e, "Ph.") {
			first = i
			val = e[strings.IndexByte(e, '.')+1:]
			break
		}
	}
	if first < 0 {
		return
	}
	dispStat("panicking_requests", 1)
	if !cs.hook {
		if outcome != "panic:"+val {
			cs.oracle = append(cs.oracle, fmt.Sprintf("C09 no hook: handler panicked with %s but ServeHTTP ended with %q", val, outcome))
		}
		return
	}
	hookPanics := false
	for _, a := range cs.hookActs {
		if a.op == "pn" || a.op == "sp" {
			hookPanics = true
		}
	}
	if hookPanics {
		return // a hook that panics itself is outside the statement (compared with the model only)
	}
	if outcome != "ret" {
		cs.oracle = append(cs.oracle, fmt.Sprintf("C09 contained: hook installed but ServeHTTP ended with %q", outcome))
	}
	n := 0
	for _, e := range cs.trace {
		if e == "HE" {
			n++
		}
	}
	if n != 1 {
		cs.oracle = append(cs.oracle, fmt.Sprintf("C09 hook once: the hook ran %d times", n))
	}
	for _, e := range cs.trace[first+1:] {
		if isChainEvent(e) || e == "OE" || e == "OL" || strings.HasPrefix(e, "Mo.") {
			cs.oracle = append(cs.oracle, fmt.Sprintf("C09 nothing after the panic: event %s after the panic point", e))
			break
		}
	}
	if len(cs.hookActs) > 0 && cs.hookActs[0].op == "gt" && cs.hookActs[0].a == rux.CTXRecoverResult {
		want := "Gh." + hx(rux.CTXRecoverResult) + "="
		if strings.HasPrefix(val, "s.") {
			want += "S" + val[2:]
		} else {
			want += "P" + val
		}
		found := false
		for _, e := range cs.trace {
			if e == want {
				found = true
			}
		}
		if !found {
			cs.oracle = append(cs.oracle, fmt.Sprintf("C09 recovered value: the hook did not read %s under %s", val, rux.CTXRecoverResult))
		}
	}
	commits := 0
	for _, e := range cs.log {
		if strings.HasPrefix(e, "WH:u:") {
			commits++
		}
	}
	if commits != 1 {
		cs.oracle = append(cs.oracle, fmt.Sprintf("C09 committed: %d header commits reached the client's writer", commits))
	}
}

/**************** panic(nil) — outside the model, evaluated with the oracle only ****************/

// nilPanic serves one request whose handler executes panic(nil) on a router with an OnPanic hook that sets 500.
// With GODEBUG=panicnil=1 (the default when the main module's go.mod says go < 1.21 — rux declares go 1.19, and
// so does this harness) recover() returns nil for such a panic: rux's deferred function then neither runs the
// hook nor commits the header, and the panic is silently swallowed.  With the Go >= 1.21 semantics the value
// is a *runtime.PanicNilError and everything works.  The model does not cover it (it answers `unsupported`).
func nilPanic() (ans string, oracle []string) {
	r := rux.New()
	hooks := 0
	var got interface{}
	r.OnPanic = func(c *rux.Context) {
		hooks++
		got, _ = c.Get(rux.CTXRecoverResult)
		c.SetStatus(500)
	}
	var nilValue interface{}
	r.GET("/x", func(c *rux.Context) { panic(nilValue) })
	cs := newDcase()
	cs.seq = 1
	rec := &dispRecWriter{cs: cs, seq: 1, hdr: http.Header{}}
	escaped := false
	func() {
		defer func() {
			if v := recover(); v != nil {
				escaped = true
			}
		}()
		r.ServeHTTP(rec, httptest.NewRequest("GET", "/x", nil))
	}()
	ans = fmt.Sprintf("escaped=%s hooks=%d log=%s", b2s(escaped), hooks, joinOrDash(cs.log))
	if escaped {
		oracle = append(oracle, "C09 panic(nil): hook installed but the panic escaped ServeHTTP")
	}
	if hooks != 1 {
		oracle = append(oracle, fmt.Sprintf("C09 panic(nil): the hook ran %d times (recover() returned nil: GODEBUG panicnil=1 semantics)", hooks))
	} else if got == nil {
		oracle = append(oracle, "C09 panic(nil): the hook found no value under "+rux.CTXRecoverResult)
	}
	if len(cs.log) != 1 || cs.log[0] != "WH:u:500" {
		oracle = append(oracle, "C09 panic(nil): the response was not committed with the hook's status, writer log: "+joinOrDash(cs.log))
	}
	return
}

/**************** Run ****************/

func runDispatch(ops []string) (ans []string, oracle []string) {
	cs := newDcase()
	for _, op := range ops {
		f := strings.Fields(op)
		a := func() (res string) {
			defer func() {
				if v := recover(); v != nil {
					res = panicClass(v)
				}
			}()
			if len(f) == 0 {
				return "bad-op"
			}
			if f[0] == "nilpanic" {
				a, o := nilPanic()
				cs.oracle = append(cs.oracle, o...)
				return a
			}
			if f[0] == "new" {
				lost := cs.lostSeen
				cs = newDcase()
				cs.lostSeen = lost
				cs.recycleRec = len(ops)%3 == 0
			}
			if r := cs.config(f); r != "" {
				if r == "ok" {
					cs.cfgOps = append(cs.cfgOps, op)
				}
				return r
			}
			if f[0] != "serve" && f[0] != "serveh" {
				return "bad-op"
			}
			res = cs.serve(f)
			if res == "bad-op" {
				return res
			}
			outcome := firstWord(res)
			cs.containment(outcome)
			// the same request as the first one on a freshly built identical router
			tw := newDcase()
			tw.isTwin = true
			for _, c := range cs.cfgOps {
				tw.config(strings.Fields(c))
			}
			tw.seq = cs.seq - 1 // same request number, so that the relative tags agree
			if fr := tw.serve(f); fr != res {
				cs.oracle = append(cs.oracle, fmt.Sprintf("fresh-router: request %d (%s) answered %q, the same request on a fresh identical router %q", cs.seq, op, res, fr))
			}
			return res + " ;; pr=" + b2s(cs.lostSeen)
		}()
		ans = append(ans, a)
	}
	oracle = cs.oracle
	return
}

/**************** generators ****************/

var dispKeys = []string{"k", "user", rux.CTXRecoverResult, rux.CTXCurrentRouteName, "p"}
var dispVals = []string{"v", "", "evil", "x y"}
var dispCodes = []int{200, 201, 404, 500, 500, 302, 0, -1, 204, 304}
var dispPVals = []string{"s." + hx("boom"), "s.-", "e." + hx("err1"), "i.7", "i.0", "ri", "rn"}

type dgen struct {
	r        *Rand
	mutators bool // bias towards context mutations (ctx engine)
}

func (g *dgen) act() string {
	r := g.r
	x := r.Intn(100)
	if g.mutators {
		x = 20 + r.Intn(80)
	}
	switch {
	case x < 30:
		return "em:" + strconv.Itoa(r.Intn(10))
	case x < 40:
		return "st:" + hx(r.Pick(dispKeys)) + ":" + hx(r.Pick(dispVals))
	case x < 48:
		return "ae:" + hx(r.Pick([]string{"e1", "e2", ""}))
	case x < 53:
		return "sp:" + hx(r.Pick([]string{"p", "q", "id"})) + ":" + hx(r.Pick(dispVals))
	case x < 62:
		return "ab"
	case x < 70:
		return "ss:" + strconv.Itoa(r.PickInt(dispCodes))
	case x < 77:
		return "wr:" + hx(r.Pick([]string{"body", "", "x"}))
	case x < 82:
		return "wh:" + strconv.Itoa(r.PickInt(dispCodes))
	case x < 86:
		return "rr:" + strconv.Itoa(r.Range(1, 3))
	case x < 90:
		return "rq:" + strconv.Itoa(r.Range(1, 3))
	case x < 95:
		return "gt:" + hx(r.Pick(dispKeys))
	default:
		return "dp"
	}
}

// handler: a few actions with 0-2 Next() calls
func (g *dgen) handler(allowNext bool) []string {
	r := g.r
	n := r.PickInt([]int{0, 1, 1, 2, 2, 3, 4})
	var acts []string
	for i := 0; i < n; i++ {
		acts = append(acts, g.act())
	}
	if allowNext {
		k := r.PickInt([]int{0, 0, 1, 1, 1, 2})
		for i := 0; i < k; i++ {
			p := r.Intn(len(acts) + 1)
			acts = append(acts[:p], append([]string{"nx"}, acts[p:]...)...)
		}
	}
	return acts
}

func tok(acts []string) string {
	if len(acts) == 0 {
		return "-"
	}
	return strings.Join(acts, ",")
}

func insertAt(acts []string, p int, a string) []string {
	return append(acts[:p:p], append([]string{a}, acts[p:]...)...)
}

type dconf struct {
	caching, mna bool
	globals      [][]string
	globalPH     bool
	routes       []dconfRoute
	notFound     [][]string
	notAllowed   [][]string
	onError      []string
	hasOnError   bool
	hook         []string
	hasHook      bool
}

type dconfRoute struct {
	id    int
	shape string
	ng    int
	hs    [][]string
}

func (g *dgen) conf() *dconf {
	r := g.r
	c := &dconf{caching: r.Bool(), mna: r.Chance(2, 3)}
	for i, n := 0, r.PickInt([]int{0, 0, 1, 1, 2, 3}); i < n; i++ {
		c.globals = append(c.globals, g.handler(true))
	}
	shapes := []string{"s", "d1", "d2", "ir", "d1", "s"}
	for i, n := 0, r.Range(1, 3); i < n; i++ {
		rt := dconfRoute{id: i + 1, shape: r.Pick(shapes), ng: r.PickInt([]int{0, 0, 0, 1, 2})}
		nmw := rt.ng + r.PickInt([]int{0, 0, 1, 2})
		for j := 0; j < nmw; j++ {
			rt.hs = append(rt.hs, g.handler(true))
		}
		rt.hs = append(rt.hs, g.handler(r.Chance(1, 4))) // a main handler may call Next() too: nothing is left to run
		c.routes = append(c.routes, rt)
	}
	if r.Chance(1, 3) {
		for i, n := 0, r.Range(1, 2); i < n; i++ {
			c.notFound = append(c.notFound, g.handler(true))
		}
	}
	if r.Chance(1, 3) {
		for i, n := 0, r.Range(1, 2); i < n; i++ {
			c.notAllowed = append(c.notAllowed, g.handler(true))
		}
	}
	if r.Chance(1, 3) {
		c.hasOnError = true
		c.onError = g.handler(false)
	}
	return c
}

func (c *dconf) ops() []string {
	ops := []string{"new " + b2s(c.caching) + " " + b2s(c.mna)}
	if c.globalPH {
		ops = append(ops, "use PH")
	}
	for _, h := range c.globals {
		ops = append(ops, "use "+tok(h))
	}
	for _, rt := range c.routes {
		line := fmt.Sprintf("route %d %s %d", rt.id, rt.shape, rt.ng)
		for _, h := range rt.hs {
			line += " " + tok(h)
		}
		ops = append(ops, line)
	}
	if len(c.notFound) > 0 {
		line := "notfound"
		for _, h := range c.notFound {
			line += " " + tok(h)
		}
		ops = append(ops, line)
	}
	if len(c.notAllowed) > 0 {
		line := "notallowed"
		for _, h := range c.notAllowed {
			line += " " + tok(h)
		}
		ops = append(ops, line)
	}
	if c.hasOnError {
		ops = append(ops, "onerror "+tok(c.onError))
	}
	if c.hasHook {
		ops = append(ops, "onpanic "+tok(c.hook))
	}
	return ops
}

var dispParamVals = []string{"va", "vb1", "vc", "v0"}

func (g *dgen) serveOp(c *dconf, kind string, rt *dconfRoute) string {
	r := g.r
	switch kind {
	case "nf":
		return "serve nf " + strconv.Itoa(r.Intn(3))
	default:
		// few distinct URLs, so that repeats hit the route cache
		return fmt.Sprintf("serve %s %d %s %s", kind, rt.id, hx(r.Pick(dispParamVals)), hx(r.Pick(dispParamVals[:2])))
	}
}

func (g *dgen) anyServe(c *dconf) string {
	r := g.r
	switch x := r.Intn(10); {
	case x < 6:
		return g.serveOp(c, "r", &c.routes[r.Intn(len(c.routes))])
	case x < 8:
		return g.serveOp(c, "na", &c.routes[r.Intn(len(c.routes))])
	default:
		return g.serveOp(c, "nf", nil)
	}
}

// viaHandleContext turns a share of the serve ops (not the first one: the router has not handed out a context
// yet) into `serveh`. Drawn after everything else of the case.
func viaHandleContext(r *Rand, ops []string, num, den int) (n int) {
	seen := false
	for i, op := range ops {
		if !strings.HasPrefix(op, "serve ") {
			continue
		}
		if seen && r.Chance(num, den) {
			ops[i] = "serveh " + strings.TrimPrefix(op, "serve ")
			n++
		}
		seen = true
	}
	return
}

// dxSentinelStream (drawn after everything else of the case): in a third of the cases every planted panic value is
// replaced, with probability 1/2, by an error sentinel of net/http / io / context, bare or wrapped with %w.
func dxSentinelStream(r *Rand, ops []string) bool {
	if !r.Chance(1, 3) {
		return false
	}
	any := false
	for i, op := range ops {
		f := strings.Fields(op)
		if len(f) == 0 || strings.HasPrefix(f[0], "serve") {
			continue
		}
		for j, t := range f {
			acts := strings.Split(t, ",")
			for k, a := range acts {
				if strings.HasPrefix(a, "pn:") && r.Chance(1, 2) {
					kind := "h"
					if r.Chance(1, 4) {
						kind = "w"
					}
					acts[k] = "pn:" + dxPV(kind, r.Pick(dxSentinelNames))
					any = true
				}
			}
			f[j] = strings.Join(acts, ",")
		}
		ops[i] = strings.Join(f, " ")
	}
	return any
}

/**************** engine panic (C09) ****************/

type panicEngine struct{}

func init() { register(panicEngine{}); register(ctxEngine{}) }

func (panicEngine) Name() string         { return "panic" }
func (panicEngine) DriverEngine() string { return "dispatch" }
func (panicEngine) Stats() map[string]int {
	dispStats.Lock()
	defer dispStats.Unlock()
	out := map[string]int{}
	for k, v := range dispStats.m {
		out[k] = v
	}
	return out
}
func (panicEngine) Budget(tier string) int {
	if tier == "thorough" {
		return 80000
	}
	return 2500
}
func (panicEngine) Run(ops []string) ([]string, []string) { return runDispatch(ops) }

var keyRec = hx(rux.CTXRecoverResult)

func (panicEngine) Corpus() []Case {
	boom := "pn:s." + hx("boom")
	return []Case{
		// known finding K-C09-panicnil (outside the model): panic(nil) under GODEBUG=panicnil=1 is not contained
		{Ops: []string{"nilpanic"}, Tag: "known:panicnil"},
		// F8: a hook that only sets a status; panic in the main handler of a one-handler route
		{Ops: []string{"new 0 0", "route 1 s 0 " + boom, "onpanic ss:500", "serve r 1 - -", "serve r 1 - -"}},
		// hook does nothing => 200; hook status+body
		{Ops: []string{"new 0 0", "route 1 s 0 " + boom, "onpanic -", "serve r 1 - -", "onpanic gt:" + keyRec + ",ss:503,wr:" + hx("oops"), "serve r 1 - -"}},
		// no hook: the value propagates, then the router still works; then a hook is installed
		{Ops: []string{"new 1 1", "route 1 d1 0 em:1,nx,em:2 dp," + boom, "route 2 s 0 dp,em:3", "serve r 1 7661 -", "serve r 2 - -", "serve r 1 7661 -", "onpanic ss:500", "serve r 1 7661 -", "serve nf 0", "serve na 1 7661 -"}},
		// panic after Next() in a global middleware with two suspended handlers; committed before the panic
		{Ops: []string{"new 0 1", "use em:1,nx,em:2", "use em:3,nx," + boom + ",em:4", "route 1 s 1 em:5,nx,em:6 wr:" + hx("body") + ",em:7", "onpanic ss:500,wr:" + hx("late"), "serve r 1 - -", "serve r 1 - -"}},
		// panics in NotFound / NotAllowed / OnError handlers, every kind of value
		{Ops: []string{"new 0 1", "route 1 s 0 ae:6531,em:1", "notfound em:1,pn:e." + hx("nf"), "notallowed pn:i.7", "onerror em:2,pn:ri", "onpanic gt:" + keyRec + ",ss:500", "serve nf 0", "serve na 1 - -", "serve r 1 - -", "nopanic", "serve nf 0", "serve na 1 - -", "serve r 1 - -"}},
		// runtime panic: write to the nil Params of a static route; the context is reused afterwards
		{Ops: []string{"new 1 0", "route 1 s 0 sp:70:78,em:1", "route 2 d1 0 dp,sp:70:6576696c,dp", "onpanic -", "serve r 1 - -", "serve r 2 7661 -", "serve r 2 7661 -", "serve r 1 - -"}},
		// in-chain PanicsHandler: the panic does not escape, 500 is recorded, the rest of the chain still runs
		{Ops: []string{"new 0 0", "use PH", "use em:1,nx,em:2", "route 1 s 0 em:3," + boom + " em:4,wr:" + hx("MAIN"), "serve r 1 - -", "serve r 1 - -"}},
		// PanicsHandler with the body already committed / with a replaced Resp / a second panic after the recovery
		{Ops: []string{"new 0 0", "use PH", "route 1 s 0 wr:" + hx("x") + "," + boom, "route 2 s 0 rr:1," + boom, "route 3 s 0 " + boom + " pn:i.2", "serve r 1 - -", "serve r 2 - -", "serve r 3 - -", "serve r 1 - -"}},
		// a hook that panics itself; a hook that aborts, replaces Resp, adds errors
		{Ops: []string{"new 0 0", "route 1 s 0 " + boom, "onpanic em:1,pn:s." + hx("again"), "serve r 1 - -", "onpanic ab,rr:2,ae:6531,wr:" + hx("alt"), "onerror em:9", "serve r 1 - -", "serve r 1 - -"}},
		// the second entry point, Router.HandleContext: a hook that only sets a status, a chain that writes nothing,
		// a 404 and a 405, then without hook (the value reaches the caller of HandleContext), then ServeHTTP again
		{Ops: []string{"new 0 1", "route 1 s 0 " + boom, "route 2 d1 0 em:1,ss:204", "onpanic ss:500", "serve r 2 7661 -", "serveh r 1 - -", "serveh r 2 7661 -", "serveh nf 0", "serveh na 1 - -",
			"nopanic", "serveh r 1 - -", "serveh r 2 7661 -", "serve r 2 7661 -"}, Tag: "corpus-hc"},
		// panic values that are error sentinels (what httputil.ReverseProxy / http.TimeoutHandler raise), bare and
		// wrapped: contained by the hook like every other value; without hook the very value reaches the caller
		{Ops: []string{"new 0 0", "use em:1,nx,em:2", "route 1 s 0 pn:" + dxPV("h", "abort"), "route 2 s 0 em:3,pn:" + dxPV("w", "abort"), "route 3 d1 0 pn:" + dxPV("h", "bodyna"),
			"notfound pn:" + dxPV("h", "ueof"), "onpanic gt:" + keyRec + ",ss:502,wr:" + hx("bad gateway"), "serve r 1 - -", "serve r 2 - -", "serve r 3 7661 -", "serve nf 0", "serveh r 1 - -",
			"nopanic", "serve r 1 - -", "serve r 2 - -", "onpanic ss:500", "serve r 1 - -"}, Tag: "corpus-sentinel"},
		{Ops: []string{"new 0 0", "use PH", "route 1 s 0 pn:" + dxPV("h", "abort") + " em:1", "onerror pn:" + dxPV("h", "deadline"), "route 2 s 0 ae:6531", "onpanic -", "serve r 1 - -", "serve r 2 - -", "serve r 1 - -"}, Tag: "corpus-sentinel"},
		// the hook answers with AbortWithStatus(500, msg) / AbortWithStatus(500) after a chain that was aborted before
		// it panicked: an inner handler rejected with AbortWithStatus(403) and the outer middleware panics after
		// Next(); a handler calls Abort() and panics
		{Ops: []string{"new 0 0", "use em:1,nx," + boom, "route 1 s 0 aw:403", "route 2 s 0 ab," + boom, "onpanic am:500:" + hx("internal error"), "serve r 1 - -", "serve r 2 - -",
			"onpanic gt:" + keyRec + ",aw:500", "serve r 1 - -", "serveh r 2 - -"}, Tag: "corpus-abort-hook"},
		// AbortWithStatus with message in the chain, committed before the panic: the hook's status is not sent
		{Ops: []string{"new 0 1", "route 1 d1 1 em:1,nx," + boom + " am:401:" + hx("denied") + ",em:2", "onpanic aw:500,dp", "serve r 1 7661 -", "serve na 1 7661 -", "serve r 1 7661 -"}, Tag: "corpus-abort-hook"},
		dnPanicCorpus()[0], dnPanicCorpus()[1],
	}
}

func (panicEngine) Gen(r *Rand, tier string) Case {
	g := &dgen{r: r}
	c := g.conf()
	// hook: absent / no-op / status / status+body / reads the value / (rarely) panics itself
	hookKind := r.Pick([]string{"none", "none", "noop", "status", "status", "body", "body", "read", "read", "mut", "panics"})
	c.hasHook = hookKind != "none"
	switch hookKind {
	case "status":
		c.hook = []string{"ss:" + strconv.Itoa(r.PickInt([]int{500, 500, 503, 200, 0}))}
	case "body":
		c.hook = []string{"ss:" + strconv.Itoa(r.PickInt([]int{500, 503})), "wr:" + hx(r.Pick([]string{"oops", ""}))}
	case "read":
		c.hook = append([]string{"gt:" + keyRec}, g.handler(false)...)
	case "mut":
		c.hook = g.handler(false)
	case "panics":
		c.hook = []string{"em:1", "pn:" + r.Pick(dispPVals)}
	}
	if r.Chance(1, 8) {
		c.globalPH = true
	}
	// plant 1-2 panics at random positions of random handlers
	type slot struct{ h *[]string }
	var slots []slot
	for i := range c.globals {
		slots = append(slots, slot{&c.globals[i]})
	}
	for i := range c.routes {
		for j := range c.routes[i].hs {
			slots = append(slots, slot{&c.routes[i].hs[j]})
		}
	}
	for i := range c.notFound {
		slots = append(slots, slot{&c.notFound[i]})
	}
	for i := range c.notAllowed {
		slots = append(slots, slot{&c.notAllowed[i]})
	}
	if c.hasOnError {
		slots = append(slots, slot{&c.onError})
		// make the OnError handler reachable: some handler records an error
		h := slots[r.Intn(len(slots)-1)].h
		*h = insertAt(*h, r.Intn(len(*h)+1), "ae:"+hx("e0"))
	}
	np := r.PickInt([]int{1, 1, 1, 2})
	tag := hookKind
	for i := 0; i < np; i++ {
		s := slots[r.Intn(len(slots))]
		*s.h = insertAt(*s.h, r.Intn(len(*s.h)+1), "pn:"+r.Pick(dispPVals))
	}
	// PanicsHandler somewhere inside a route's chain (first route middleware), not only as the first global
	if r.Chance(1, 10) {
		rt := &c.routes[r.Intn(len(c.routes))]
		hs := append([][]string{}, rt.hs[:rt.ng]...)
		hs = append(hs, []string{"PH"})
		rt.hs = append(hs, rt.hs[rt.ng:]...)
		tag += "+routePH"
	}
	ops := c.ops()
	n := r.Range(2, 6)
	if tier == "thorough" {
		n = r.Range(2, 10)
	}
	for i := 0; i < n; i++ {
		ops = append(ops, g.anyServe(c))
		if r.Chance(1, 10) {
			if r.Bool() {
				ops = append(ops, "nopanic")
			} else {
				ops = append(ops, "onpanic "+tok([]string{"ss:500"}))
			}
		}
	}
	if c.globalPH {
		tag += "+PH"
	}
	viaHandleContext(r, ops, 1, 4)
	if dxSentinelStream(r, ops) {
		tag += "+sentinel"
	}
	ops, ah := dxaAbortHookStream(r, ops)
	if ah {
		tag += "+aborthook"
	}
	ops, tag = dnPanicStream(g, c, ops, tag)
	if o2, ok := dxJSONPStream(r, ops); ok {
		ops, tag = o2, tag+"+jsonp"
	}
	if dxCancelStream(r, ops) {
		tag += "+cx"
	}
	return Case{Ops: ops, Tag: "hook=" + tag}
}

// dxaAbortHookStream (drawn after everything else of the case; one case in six): the OnPanic hook answers the way
// the documentation shows it - c.AbortWithStatus(code) or c.AbortWithStatus(code, msg), alone, after reading the
// recovered value, or followed by a dump - and in two thirds of these cases the chain is aborted before it panics:
// every planted panic gets, with probability 1/2, an Abort() / AbortWithStatus(code[, msg]) right in front of it
// (same handler), so the hook starts on an aborted context.
func dxaAbortHookStream(r *Rand, ops []string) ([]string, bool) {
	if !r.Chance(1, 6) {
		return ops, false
	}
	abortTok := func() string {
		code := strconv.Itoa(r.PickInt([]int{500, 500, 503, 403, 401, 200, 0}))
		if r.Bool() {
			return "aw:" + code
		}
		return "am:" + code + ":" + hx(r.Pick([]string{"internal error", "denied", ""}))
	}
	hook := []string{abortTok()}
	switch r.Intn(4) {
	case 0:
		hook = append([]string{"gt:" + keyRec}, hook...)
	case 1:
		hook = append(hook, "dp")
	}
	line := "onpanic " + tok(hook)
	firstServe, placed := -1, false
	for i, op := range ops {
		if strings.HasPrefix(op, "serve") {
			firstServe = i
			break
		}
		if strings.HasPrefix(op, "onpanic ") {
			ops[i] = line
			placed = true
		}
	}
	if firstServe < 0 {
		return ops, false
	}
	if !placed {
		ops = append(ops[:firstServe:firstServe], append([]string{line}, ops[firstServe:]...)...)
	}
	if r.Chance(2, 3) {
		for i, op := range ops {
			f := strings.Fields(op)
			if len(f) == 0 || strings.HasPrefix(f[0], "serve") || f[0] == "onpanic" {
				continue
			}
			for j, t := range f {
				if j == 0 || !strings.Contains(t, "pn:") {
					continue
				}
				var out []string
				for _, a := range strings.Split(t, ",") {
					if strings.HasPrefix(a, "pn:") && r.Bool() {
						if r.Chance(1, 3) {
							out = append(out, "ab")
						} else {
							out = append(out, abortTok())
						}
					}
					out = append(out, a)
				}
				f[j] = strings.Join(out, ",")
			}
			ops[i] = strings.Join(f, " ")
		}
	}
	return ops, true
}

// dxCancelStream (drawn after everything else of the case; one case in five): one or two handlers of the routes and
// the global chain give the request a context.Context that is cancelled when the handler returns or is unwound by a
// panic (action `cx`).  What the hooks and rux do afterwards must not depend on it.
func dxCancelStream(r *Rand, ops []string) bool {
	if !r.Chance(1, 5) {
		return false
	}
	type pos struct{ i, j int }
	var ps []pos
	for i, op := range ops {
		f := strings.Fields(op)
		from := 0
		switch {
		case len(f) > 4 && f[0] == "route":
			from = 4
		case len(f) > 1 && f[0] == "use":
			from = 1
		default:
			continue
		}
		for j := from; j < len(f); j++ {
			if f[j] != "-" && f[j] != "PH" {
				ps = append(ps, pos{i, j})
			}
		}
	}
	if len(ps) == 0 {
		return false
	}
	for k, n := 0, r.Range(1, 2); k < n; k++ {
		p := ps[r.Intn(len(ps))]
		f := strings.Fields(ops[p.i])
		acts := strings.Split(f[p.j], ",")
		lo := 0
		if acts[0] == "dp" {
			lo = 1
		}
		f[p.j] = strings.Join(insertAt(acts, r.Range(lo, len(acts)), "cx"), ",")
		ops[p.i] = strings.Join(f, " ")
	}
	return true
}

// dxSetHandlersStream (drawn after everything else of the case; one case in six): a handler of route A hands the
// middleware slice of route B (the route with the longest chain, at least two middleware) to its context with
// c.SetHandlers(B.Handlers()) - mostly as the last action of A's main handler, where the running request does not
// notice. The history is extended by requests that get the pooled context back (a short chain: a 404, a 405,
// a static route) and by requests to B, whose chain must be what it was.
func dxSetHandlersStream(g *dgen, c *dconf, serves *[]string) bool {
	r := g.r
	if !r.Chance(1, 6) {
		return false
	}
	if len(c.globals) > 1 {
		c.globals = c.globals[:1] // short chains fit into the slice that was handed in
	}
	bi := 0
	for i := range c.routes {
		if len(c.routes[i].hs) > len(c.routes[bi].hs) {
			bi = i
		}
	}
	b := &c.routes[bi]
	for len(b.hs) < 3 { // at least two middleware (inserted behind the group middleware)
		mw := append([]string{"em:" + strconv.Itoa(r.Intn(10))}, "nx")
		hs := append([][]string{}, b.hs[:b.ng]...)
		hs = append(hs, mw)
		b.hs = append(hs, b.hs[b.ng:]...)
	}
	ai := r.Intn(len(c.routes))
	a := &c.routes[ai]
	h := &a.hs[len(a.hs)-1]
	tok := "sh:" + strconv.Itoa(b.id)
	if r.Chance(3, 4) {
		*h = append(append([]string{}, *h...), tok)
	} else {
		h = &a.hs[r.Intn(len(a.hs))]
		lo := 0
		if len(*h) > 0 && (*h)[0] == "dp" {
			lo = 1
		}
		*h = insertAt(*h, r.Range(lo, len(*h)), tok)
	}
	for i, n := 0, r.Range(1, 3); i < n; i++ {
		*serves = append(*serves, g.serveOp(c, "r", a))
		for j, m := 0, r.Range(1, 2); j < m; j++ {
			switch r.Intn(4) {
			case 0:
				*serves = append(*serves, g.serveOp(c, "nf", nil))
			case 1:
				*serves = append(*serves, g.serveOp(c, "na", &c.routes[r.Intn(len(c.routes))]))
			default:
				*serves = append(*serves, g.serveOp(c, "r", &c.routes[r.Intn(len(c.routes))]))
			}
		}
		*serves = append(*serves, g.serveOp(c, "r", b))
	}
	return true
}

/**************** engine ctx (C10) ****************/

type ctxEngine struct{}

func (ctxEngine) Name() string          { return "ctx" }
func (ctxEngine) DriverEngine() string  { return "dispatch" }
func (ctxEngine) Stats() map[string]int { return panicEngine{}.Stats() }
func (ctxEngine) Budget(tier string) int {
	if tier == "thorough" {
		return 60000
	}
	return 2500
}
func (ctxEngine) Run(ops []string) ([]string, []string) { return runDispatch(ops) }

func (ctxEngine) Corpus() []Case {
	evil := "sp:" + hx("p") + ":" + hx("evil")
	return []Case{
		// F13: caching on, a handler writes into c.Params; the next request to the same URL must not see it
		{Ops: []string{"new 1 0", "route 1 d1 0 dp," + evil + ",dp", "serve r 1 7661 -", "serve r 1 7661 -", "serve r 1 7661 -"}},
		{Ops: []string{"new 0 0", "route 1 d1 0 dp," + evil + ",dp", "serve r 1 7661 -", "serve r 1 7661 -"}},
		// a dynamic route that leaves everything behind, followed by a 404 and a 405 that only look
		{Ops: []string{"new 1 1", "route 1 d2 0 dp,st:6b:76,ae:6531,sp:71:78,ss:201,wr:6262,rr:1,rq:1,ab", "notfound dp", "notallowed dp", "serve r 1 7661 7662", "serve nf 0", "serve na 1 7661 7662", "serve r 1 7661 7662"}},
		// aborted, erroring and panicking (with hook) requests, then a static route
		{Ops: []string{"new 0 1", "use dp,nx", "route 1 s 0 ab,ss:404", "route 2 s 0 ae:6531,ae:6532", "route 3 ir 0 st:6b:76,pn:s.78", "route 4 s 0 em:1", "onerror em:2", "onpanic ss:500", "serve r 1 - -", "serve r 4 - -", "serve r 2 - -", "serve r 4 - -", "serve r 3 7661 -", "serve r 4 - -", "serve nf 1", "serve na 3 7661 -"}},
		// the same without a hook: the panicking request's context never comes back
		{Ops: []string{"new 1 1", "use dp,nx", "route 3 d1 0 st:6b:76,ss:500,wr:78,pn:s.78", "route 4 s 0 em:1", "serve r 3 7661 -", "serve r 4 - -", "serve r 3 7661 -", "serve r 4 - -"}},
		// requests through Router.HandleContext mixed with ServeHTTP: every one starts pristine, status-only chains commit
		{Ops: []string{"new 1 1", "use dp,nx", "route 1 d1 0 st:6b:76,ae:6531,ss:204,ab", "route 2 s 0 em:1", "serve r 1 7661 -", "serveh r 2 - -", "serveh r 1 7661 -", "serve r 2 - -", "serveh nf 0", "serveh na 1 7661 -", "serve r 1 7661 -"}, Tag: "corpus-hc"},
		// a handler keeps a Copy() of its context (user=alice); later requests on the pooled context set user=bob,
		// hit a 404, come through HandleContext: the copy keeps what it held
		{Ops: []string{"new 0 0", "route 1 d1 0 dp,st:" + hx("user") + ":" + hx("alice") + ",kc,wr:" + hx("accepted"), "route 2 s 0 dp,st:" + hx("user") + ":" + hx("bob") + ",wr:" + hx("pong"),
			"notfound dp", "serve r 1 7661 -", "serve r 2 - -", "serve nf 0", "serveh r 2 - -", "serve r 1 7662 -", "serve r 2 - -"}, Tag: "corpus-kept-copy"},
		{Ops: []string{"new 1 1", "use dp,kc,nx,st:6b:76,kc", "route 1 d2 0 sp:70:6576696c,kc", "route 2 s 0 pn:s.78", "onpanic kc,ss:500", "serve r 1 7661 7662", "serve r 2 - -", "serve r 1 7661 7662", "serve na 1 7661 7662", "serve r 2 - -"}, Tag: "corpus-kept-copy"},
		// a handler hands the middleware slice of ANOTHER route to its context (c.SetHandlers(route.Handlers()));
		// the requests that get this pooled context afterwards must leave that slice alone: route 2 keeps its chain
		{Ops: []string{"new 0 0", "route 1 s 0 dp,wr:" + hx("fwd") + ",sh:2", "route 2 s 0 em:1,nx em:2,nx em:3,nx wr:" + hx("B"), "route 3 s 0 dp,wr:" + hx("plain"),
			"serve r 1 - -", "serve r 3 - -", "serve r 2 - -", "serve r 1 - -", "serve nf 0", "serve r 2 - -"}, Tag: "corpus-sethandlers"},
		// the same through HandleContext, with a group route as the target, its own slice as the source, a 405 in between
		{Ops: []string{"new 1 1", "route 1 d1 2 em:1,nx em:2,nx em:3,nx dp,sh:1", "route 2 s 0 dp,sh:1", "serve r 1 7661 -", "serve na 2 - -", "serve r 1 7661 -", "serve r 2 - -", "serveh r 2 - -", "serve nf 1", "serveh r 1 7662 -"}, Tag: "corpus-sethandlers"},
		dnCtxCorpus()[0], dnCtxCorpus()[1], dnCtxCorpus()[2], dnCtxCorpus()[3], dnCtxCorpus()[4],
	}
}

func (ctxEngine) Gen(r *Rand, tier string) Case {
	g := &dgen{r: r, mutators: true}
	c := g.conf()
	c.hasHook = r.Chance(3, 4)
	if c.hasHook {
		c.hook = g.handler(false)
	}
	// some panics, so that contexts that panicked go back to the pool (hook) or are lost (no hook)
	for i := range c.routes {
		if r.Chance(1, 3) {
			h := &c.routes[i].hs[r.Intn(len(c.routes[i].hs))]
			*h = insertAt(*h, r.Intn(len(*h)+1), "pn:"+r.Pick(dispPVals))
		}
	}
	// the first handler of every chain starts with a dump
	first := func(h *[]string) { *h = append([]string{"dp"}, *h...) }
	if len(c.globals) > 0 {
		first(&c.globals[0])
	} else {
		for i := range c.routes {
			first(&c.routes[i].hs[0])
		}
		if len(c.notFound) == 0 && r.Bool() {
			c.notFound = [][]string{g.handler(true)}
		}
		if len(c.notAllowed) == 0 && r.Bool() {
			c.notAllowed = [][]string{g.handler(true)}
		}
		if len(c.notFound) > 0 {
			first(&c.notFound[0])
		}
		if len(c.notAllowed) > 0 {
			first(&c.notAllowed[0])
		}
	}
	n := r.Range(3, 12)
	if tier == "thorough" {
		n = r.Range(3, 30)
	}
	var serves []string
	for i := 0; i < n; i++ {
		serves = append(serves, g.anyServe(c))
	}
	// drawn last (everything above is what the same seed generated before these streams existed):
	// a fifth of the requests enter through Router.HandleContext; in a quarter of the cases one to three handlers
	// keep a Copy() of their context
	viaHandleContext(r, serves, 1, 5)
	tag := fmt.Sprintf("caching=%s hook=%s", b2s(c.caching), b2s(c.hasHook))
	if r.Chance(1, 4) {
		var slots []*[]string
		for i := range c.globals {
			slots = append(slots, &c.globals[i])
		}
		for i := range c.routes {
			for j := range c.routes[i].hs {
				slots = append(slots, &c.routes[i].hs[j], &c.routes[i].hs[j])
			}
		}
		for i := range c.notFound {
			slots = append(slots, &c.notFound[i])
		}
		for i := range c.notAllowed {
			slots = append(slots, &c.notAllowed[i])
		}
		for i, k := 0, r.Range(1, 3); i < k; i++ {
			h := slots[r.Intn(len(slots))]
			lo := 0
			if len(*h) > 0 && (*h)[0] == "dp" {
				lo = 1 // the dump stays the first action
			}
			*h = insertAt(*h, r.Range(lo, len(*h)), "kc")
		}
		tag += " copy"
	}
	// drawn after that: in a fifth of the cases one to three handlers read and edit the URL query, in a fifth one or
	// two handlers give the request a context that is cancelled when they return
	for _, tok := range []string{"qv", "cx"} {
		if !r.Chance(1, 5) {
			continue
		}
		var slots []*[]string
		for i := range c.globals {
			slots = append(slots, &c.globals[i])
		}
		for i := range c.routes {
			for j := range c.routes[i].hs {
				slots = append(slots, &c.routes[i].hs[j], &c.routes[i].hs[j])
			}
		}
		if tok == "qv" {
			for i := range c.notFound {
				slots = append(slots, &c.notFound[i])
			}
		}
		for i, k := 0, r.Range(1, 3); i < k && len(slots) > 0; i++ {
			h := slots[r.Intn(len(slots))]
			lo := 0
			if len(*h) > 0 && (*h)[0] == "dp" {
				lo = 1
			}
			*h = insertAt(*h, r.Range(lo, len(*h)), tok)
		}
		tag += " " + tok
	}
	if dxSetHandlersStream(g, c, &serves) {
		tag += " sethandlers"
	}
	tag += dnCtxStreams(g, c, &serves)
	ops := append(c.ops(), serves...)
	if o2, ok := dxJSONPStream(r, ops); ok { // response helpers (JSONP, Render) as handler actions; drawn last
		ops, tag = o2, tag+"+helpers"
	}
	return Case{Ops: ops, Tag: tag}
}
