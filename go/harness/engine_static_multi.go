package main

import (
	"fmt"
	"strings"
)

// engine static (C17), scenario class "one router, SEVERAL static mounts with roots of their own, a small route
// cache, request histories that evict an entry and come back to it":
//
//	addmount <kind> <flags> <prefix> <exts> <target>    one more Static* call on the router of the last `mount`
//	      (enc / strict / caching are router options: they stay what the `mount` said)
//	bits 3,4 of <flags> of `mount`: n = 1..3 → rux.CachingWithNum(n) (the model ignores them like bit 1:
//	      a route cache must not change what a request observes)
//
// Only mounts whose routes cannot both match a path are modelled (neither literal route prefix is a prefix
// of the other; otherwise both sides answer "unsupported"): then the order in which rux tries the routes does
// not matter and the answer is the one of the single mount the path falls under, or 404.
// The oracles (confinement, extensions) judge an answer against the mount the REQUEST PATH falls under,
// picked here from the path alone (stMultiPick), whatever route and parameters the router came up with.

// stMultiKey: the literal text every path served by the mount starts with (kind file: the path itself).
func stMultiKey(m mountCfg) string {
	if m.kind == "file" {
		return stMultiNorm(m.prefix, m.strict)
	}
	return "/" + strings.TrimLeft(m.prefix+"/", "/")
}

// stMultiNorm: the request path as the router normalises it (normReqPath) with one leading slash.
func stMultiNorm(p string, strict bool) string {
	p = normReqPath(p, strict)
	return "/" + strings.TrimLeft(p, "/")
}

// stMultiDisjoint: no path can be served by both mounts.
func stMultiDisjoint(a, b mountCfg) bool {
	ka, kb := stMultiKey(a), stMultiKey(b)
	return !strings.HasPrefix(ka, kb) && !strings.HasPrefix(kb, ka)
}

// stMultiPick: the mount the request path falls under; none: a configuration that allows nothing.
func stMultiPick(mounts []mountCfg, reqPath string) mountCfg {
	first := mounts[0]
	np := stMultiNorm(reqPath, first.strict)
	for _, m := range mounts {
		k := stMultiKey(m)
		if m.kind == "file" {
			if np == k {
				return m
			}
		} else if strings.HasPrefix(np, k) && len(np) > len(k) {
			return m
		}
	}
	return mountCfg{kind: "none", enc: first.enc, strict: first.strict, target: "/\x00under-no-mount"}
}

func stMultiAddOp(kind string, prefix string, exts []string, target string) string {
	return fmt.Sprintf("addmount %s 0 %s %s %s", kind, hx(prefix), hxList(exts), hx(target))
}

// stMultiFlags: router options of the multi-mount streams: mostly a route cache of 1..3 entries.
func stMultiFlags(r *Rand) int {
	flags := 0
	if r.Chance(1, 4) {
		flags |= 1
	}
	if r.Chance(1, 6) {
		flags |= 4
	}
	switch x := r.Intn(10); {
	case x < 8:
		flags |= r.Range(1, 3) << 3
	case x < 9:
		flags |= 2
	}
	return flags
}

/**************** corpus ****************/

func stMultiCorpus(tree string) []Case {
	var cases []Case
	type mnt struct {
		kind, prefix string
		exts         []string
		target       string
	}
	for _, c := range []struct {
		flags  int
		mounts []mnt
		reqs   []string
	}{
		// two StaticFiles mounts with roots and extensions of their own, two cache entries: fill, evict, come back
		{2 << 3, []mnt{{"files", "/pub", []string{"js", "ejs"}, ""}, {"files", "/internal", []string{"css", "html"}, "/css"}},
			[]string{"/pub/js/app.js", "/pub/x.ejs", "/internal/site.css", "/pub/js/app.js", "/pub/x.ejs", "/internal/index.html", "/internal/site.css", "/pub/js/app.js",
				"/pub/site.css", "/internal/app.js", "/pub/css/site.css", "/internal/../a.css", "/other/a.css", "/"}},
		{1 << 3, []mnt{{"dir", "/a", nil, "/js"}, {"dir", "/b", nil, "/css"}, {"fs", "/c", nil, "/sub"}},
			[]string{"/a/app.js", "/b/site.css", "/a/app.js", "/c/deep/d.js", "/b/site.css", "/a/app.js", "/c/deep/d.js", "/a/site.css", "/b/app.js", "/c/app.js", "/b/", "/a/", "/b/"}},
		{3<<3 | 1, []mnt{{"fs", "/fs/x", nil, ""}, {"files", "/assets", []string{"css"}, "/d.css"}, {"dir", "/static", nil, "/css"}, {"file", "/one.js", nil, "/js/app.js"}},
			[]string{"/fs/x/a.css", "/assets/in.css", "/static/site.css", "/fs/x/js/app.js", "/fs/x/a.css", "/assets/in.css", "/one.js", "/static/site.css", "/fs/x/a.css",
				"/assets/site.css", "/static/in.css", "/fs/x/in.css", "/assets/a.css"}},
		{2, []mnt{{"files", "/pub", []string{"js"}, "/js"}, {"dir", "/all", nil, ""}},
			[]string{"/pub/app.js", "/all/a.css", "/pub/app.js", "/all/js/app.js", "/all/a.css"}},
	} {
		ops := []string{tree}
		for i, m := range c.mounts {
			if i == 0 {
				ops = append(ops, mountOpF(m.kind, c.flags, m.prefix, m.exts, m.target))
			} else {
				ops = append(ops, stMultiAddOp(m.kind, m.prefix, m.exts, m.target))
			}
		}
		ops = append(ops, reqOps(c.reqs...)...)
		cases = append(cases, Case{Ops: ops, Tag: "corpus-multi"})
	}
	// mounts whose routes overlap: outside the modelled fragment
	cases = append(cases, Case{Tag: "corpus-multi", Ops: append([]string{tree, mountOpF("dir", 1<<3, "/a", nil, ""), stMultiAddOp("files", "/a/b", []string{"css"}, "/css")},
		reqOps("/a/b/site.css", "/a/a.css")...)})
	return cases
}

/**************** generator stream ****************/

var stMultiPrefixes = []string{"/pub", "/internal", "/assets", "/s-t_u~v", "/v1.0", "/dl", "/static", "/fs/x", "/a/b", "/a/c", "/www"}

func stMultiGen(r *Rand, tier string) Case {
	files, dirs := genTree(r)
	ops := []string{treeOp(files, dirs)}
	nm := r.PickInt([]int{2, 2, 2, 3, 3, 4})
	perm := make([]int, len(stMultiPrefixes))
	for i := range perm {
		perm[i] = i
	}
	r.Shuffle(len(perm), func(i, j int) { perm[i], perm[j] = perm[j], perm[i] })
	type mnt struct {
		kind, prefix, target string
		exts                 []string
	}
	var mounts []mnt
	var pool []string // request targets that come back again and again
	for i := 0; i < nm; i++ {
		m := mnt{kind: r.Pick([]string{"dir", "files", "files", "files", "fs"}), prefix: stMultiPrefixes[perm[i]]}
		if r.Chance(1, 12) {
			m.kind = "file"
		}
		if len(dirs) > 0 && r.Chance(2, 3) { // a root of its own
			m.target = dirs[r.Intn(len(dirs))]
		}
		switch m.kind {
		case "files":
			m.exts = extSets[r.Intn(len(extSets))]
		case "file":
			m.target = "/missing.css"
			if len(files) > 0 {
				m.target = files[r.Intn(len(files))]
			}
		}
		mounts = append(mounts, m)
		if i == 0 {
			ops = append(ops, mountOpF(m.kind, stMultiFlags(r), m.prefix, m.exts, m.target))
		} else {
			ops = append(ops, stMultiAddOp(m.kind, m.prefix, m.exts, m.target))
		}
		// what the mount should serve: files below its root (for StaticFiles: with an allowed extension) ...
		var good, other []string
		for _, f := range files {
			if m.kind == "file" || !strings.HasPrefix(f, m.target+"/") {
				other = append(other, f)
				continue
			}
			rel := f[len(m.target):]
			if m.kind == "files" && !hasAllowedExt(rel, m.exts) {
				other = append(other, rel)
				continue
			}
			good = append(good, rel)
		}
		if m.kind == "file" {
			pool = append(pool, m.prefix)
			continue
		}
		for k, n := 0, r.Range(1, 3); k < n && len(good) > 0; k++ {
			pool = append(pool, m.prefix+pctEncodeSome(r, good[r.Intn(len(good))], 1, 1000))
		}
		// ... and a name from elsewhere (another root, a forbidden extension)
		if len(other) > 0 && r.Chance(2, 3) {
			pool = append(pool, m.prefix+pctEncodeSome(r, other[r.Intn(len(other))], 1, 1000))
		}
		if r.Chance(1, 3) {
			pool = append(pool, genTarget(r, m.prefix, files, dirs))
		}
	}
	if len(pool) == 0 {
		pool = append(pool, mounts[0].prefix+"/a.css")
	}
	// a history over few paths: with 1..3 cache entries every path is evicted and asked for again
	for j, n := 0, r.Range(10, 28); j < n; j++ {
		if r.Chance(1, 10) {
			m := mounts[r.Intn(len(mounts))]
			ops = append(ops, reqOp(genTarget(r, m.prefix, files, dirs)))
			continue
		}
		ops = append(ops, reqOp(pool[r.Intn(len(pool))]))
	}
	return Case{Ops: ops, Tag: "multi"}
}
