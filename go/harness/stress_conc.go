package main

import (
	"bytes"
	"encoding/json"
	"fmt"
	"os"
	"os/exec"
	"path/filepath"
	"regexp"
	"strings"
	"sync"
	"sync/atomic"
	"time"
)

// Race-detector stress run for C03 (thorough tier): `harness-race -stress conc -seconds N -seed S -work DIR`.
//
// The binary is meant to be built with `go build -race -tags verif`. The parent re-executes itself as a child
// with GORACE=log_path=..., the child hammers ServeHTTP of one router after the other from 16 goroutines
// (caching on with tiny capacities, shared slices with spare capacity, 404/405/HEAD mixes, handlers that
// write c.Params and c.Set) and checks every response against the response of the same request served alone
// on an identical fresh router. The parent then reads the race reports:
//   * a report in which an access is attributed to rux (the innermost frame that belongs to rux or to the
//     harness is a github.com/gookit/rux frame)  -> `ORACLE: ...` line with the first lines of the report, exit 1
//   * a wrong response under concurrency                      -> `ORACLE: ...`, exit 1
//   * a crash of the child (e.g. "fatal error: concurrent map writes") -> `ORACLE: ...`, exit 1
//   * a race that involves only harness code                  -> `HARNESS-RACE: ...`, exit 3 (a defect of the harness)
// Without the race detector compiled in, only the response check runs (the summary says so).

const stressGoroutines = 16

type stressSummary struct {
	RaceBuild    bool   `json:"race_build"`
	Seconds      int    `json:"seconds"`
	Seed         uint64 `json:"seed"`
	Rounds       int    `json:"rounds"`
	Requests     int64  `json:"requests"`
	Mismatches   int    `json:"mismatches"`
	RaceReports  int    `json:"race_reports"`
	RuxRaces     int    `json:"rux_races"`
	HarnessRaces int    `json:"harness_races"`
	ChildExit    int    `json:"child_exit"`
}

func runStress(engine string, seconds int, seed uint64, work string) int {
	if engine != "conc" {
		fmt.Fprintln(os.Stderr, "no stress workload for engine", engine)
		return 2
	}
	if os.Getenv("VERIF_STRESS_CHILD") == "1" {
		return stressChild(seconds, seed)
	}
	if work == "" {
		work = os.Getenv("VERIF_WORK")
	}
	if work == "" {
		work = ".work"
	}
	_ = os.MkdirAll(work, 0o755)
	logBase := filepath.Join(work, fmt.Sprintf("race_conc_%d", seed))
	old, _ := filepath.Glob(logBase + ".*")
	for _, f := range old {
		_ = os.Remove(f)
	}
	self, err := os.Executable()
	if err != nil {
		fmt.Fprintln(os.Stderr, err)
		return 2
	}
	cmd := exec.Command(self, "-stress", engine, "-seconds", fmt.Sprint(seconds), "-seed", fmt.Sprint(seed))
	cmd.Env = append(os.Environ(), "VERIF_STRESS_CHILD=1", "GORACE=log_path="+logBase+" halt_on_error=0 exitcode=0")
	var out, errb bytes.Buffer
	cmd.Stdout, cmd.Stderr = &out, &errb
	done := make(chan error, 1)
	if err := cmd.Start(); err != nil {
		fmt.Fprintln(os.Stderr, err)
		return 2
	}
	go func() { done <- cmd.Wait() }()
	sum := stressSummary{RaceBuild: raceEnabled, Seconds: seconds, Seed: seed}
	var oracle []string
	select {
	case err := <-done:
		if err != nil {
			sum.ChildExit = 1
			if ee, ok := err.(*exec.ExitError); ok {
				sum.ChildExit = ee.ExitCode()
			}
		}
	case <-time.After(time.Duration(seconds)*time.Second + 120*time.Second):
		_ = cmd.Process.Kill()
		sum.ChildExit = -1
		oracle = append(oracle, fmt.Sprintf("C03 stress: the run did not finish within %ds + 120s (deadlock?)", seconds))
	}
	for _, line := range strings.Split(out.String(), "\n") {
		switch {
		case strings.HasPrefix(line, "MISMATCH: "):
			sum.Mismatches++
			if sum.Mismatches <= 3 {
				oracle = append(oracle, "C03 independence under real concurrency: "+strings.TrimPrefix(line, "MISMATCH: "))
			}
		case strings.HasPrefix(line, "CHILD-SUMMARY "):
			var cs stressSummary
			if json.Unmarshal([]byte(strings.TrimPrefix(line, "CHILD-SUMMARY ")), &cs) == nil {
				sum.Rounds, sum.Requests = cs.Rounds, cs.Requests
			}
		}
	}
	if sum.ChildExit != 0 && sum.ChildExit != -1 && sum.Mismatches == 0 {
		oracle = append(oracle, "C03 stress: the run crashed (exit "+fmt.Sprint(sum.ChildExit)+"): "+firstLines(errb.String(), 12))
	}
	// race reports
	var harnessRaces []string
	files, _ := filepath.Glob(logBase + ".*")
	for _, f := range files {
		b, err := os.ReadFile(f)
		if err != nil {
			continue
		}
		for _, rep := range splitRaceReports(string(b)) {
			sum.RaceReports++
			if raceAttributedToRux(rep) {
				sum.RuxRaces++
				if sum.RuxRaces <= 3 {
					oracle = append(oracle, "C03 data race in rux (race detector, concurrent ServeHTTP): "+firstLines(rep, 14))
				}
			} else {
				sum.HarnessRaces++
				if len(harnessRaces) < 2 {
					harnessRaces = append(harnessRaces, firstLines(rep, 14))
				}
			}
		}
	}
	js, _ := json.Marshal(sum)
	fmt.Println("STRESS-SUMMARY " + string(js))
	for _, o := range oracle {
		fmt.Println("ORACLE: " + o)
	}
	for _, h := range harnessRaces {
		fmt.Println("HARNESS-RACE: " + h)
	}
	switch {
	case len(oracle) > 0:
		return 1
	case len(harnessRaces) > 0:
		return 3
	}
	return 0
}

func firstLines(s string, n int) string {
	lines := strings.Split(strings.TrimSpace(s), "\n")
	if len(lines) > n {
		lines = lines[:n]
	}
	for i := range lines {
		lines[i] = strings.TrimSpace(lines[i])
	}
	return strings.Join(lines, " / ")
}

func splitRaceReports(s string) []string {
	var out []string
	for _, part := range strings.Split(s, "==================") {
		if strings.Contains(part, "WARNING: DATA RACE") {
			out = append(out, strings.TrimSpace(part))
		}
	}
	return out
}

var raceAccessRe = regexp.MustCompile(`^(Write|Read|Previous write|Previous read|Atomic write|Atomic read|Previous atomic write|Previous atomic read) at 0x`)

// raceAttributedToRux: for each of the two accesses of the report, walk the stack from the innermost frame
// outwards to the first frame that belongs to rux or to the harness (frames of the standard library are skipped:
// container/list called from cachedRoutes.Get is rux's access). The report counts for rux when one of the two
// accesses is attributed to a github.com/gookit/rux frame.
func raceAttributedToRux(rep string) bool {
	lines := strings.Split(rep, "\n")
	for i := 0; i < len(lines); i++ {
		if !raceAccessRe.MatchString(strings.TrimSpace(lines[i])) {
			continue
		}
		for j := i + 1; j < len(lines); j++ {
			l := lines[j]
			if strings.TrimSpace(l) == "" {
				break
			}
			if strings.HasPrefix(l, "      ") { // file:line of the frame above
				continue
			}
			fn := strings.TrimSpace(l)
			if strings.HasPrefix(fn, "github.com/gookit/rux.") || strings.HasPrefix(fn, "github.com/gookit/rux/") {
				return true
			}
			if strings.HasPrefix(fn, "main.") || strings.HasPrefix(fn, "ruxverif/") {
				break
			}
		}
	}
	return false
}

/**************** the workload (child) ****************/

func stressChild(seconds int, seed uint64) int {
	root := NewRand(seed ^ 0x5712e55)
	deadline := time.Now().Add(time.Duration(seconds) * time.Second)
	roundLen := 1500 * time.Millisecond
	var total int64
	var mu sync.Mutex
	mismatches := 0
	rounds := 0
	for time.Now().Before(deadline) {
		rounds++
		r := root.Fork()
		g, _ := ccGenCase(r, true, r.Range(6, 10))
		// caching on with a tiny capacity in three rounds out of four
		if r.Chance(3, 4) {
			g.cache = r.PickInt([]int{0, 1, 1, 2, 3})
		}
		if r.Chance(2, 3) {
			g.mna = true
		}
		cfg := ccParse(g.setupOps())
		cfg.reqs = g.reqs
		want := make([]string, len(cfg.reqs))
		for i, rq := range cfg.reqs {
			want[i] = cfg.solo(rq)
		}
		rt := cfg.build(true)
		stop := time.Now().Add(roundLen)
		if stop.After(deadline) {
			stop = deadline
		}
		var wg sync.WaitGroup
		for w := 0; w < stressGoroutines; w++ {
			wg.Add(1)
			pr := r.Fork()
			go func() {
				defer wg.Done()
				n := int64(0)
				var prev *ccReqState // the previous request of this worker: its kept copies must not change any more
				for time.Now().Before(stop) {
					for k := 0; k < 50; k++ {
						i := pr.Intn(len(cfg.reqs))
						rs := ccNewReq(cfg.reqs[i], true)
						rt.r.ServeHTTP(rs.rec, rs.req)
						rs.started, rs.finished = true, true
						rs.ended()
						if rs.ccwAlien != "" {
							mu.Lock()
							mismatches++
							if mismatches <= 5 {
								fmt.Printf("MISMATCH: request %s %s %s (router: %s)\n", cfg.reqs[i].method, cfg.reqs[i].path, rs.ccwAlien, strings.Join(g.setupOps(), "; "))
							}
							mu.Unlock()
						}
						if prev != nil {
							for _, msg := range prev.keptChanged() {
								mu.Lock()
								mismatches++
								if mismatches <= 5 {
									fmt.Printf("MISMATCH: %s (router: %s)\n", msg, strings.Join(g.setupOps(), "; "))
								}
								mu.Unlock()
							}
						}
						prev = rs
						n++
						if got := rs.show(rs.phase()); got != want[i] {
							mu.Lock()
							mismatches++
							if mismatches <= 5 {
								fmt.Printf("MISMATCH: request %s %s served concurrently produced %q, alone it produces %q (router: %s)\n",
									cfg.reqs[i].method, cfg.reqs[i].path, got, want[i], strings.Join(g.setupOps(), "; "))
							}
							mu.Unlock()
						}
					}
				}
				atomic.AddInt64(&total, n)
			}()
		}
		wg.Wait()
	}
	js, _ := json.Marshal(stressSummary{Rounds: rounds, Requests: atomic.LoadInt64(&total)})
	fmt.Println("CHILD-SUMMARY " + string(js))
	if mismatches > 0 {
		return 1
	}
	return 0
}
