package main

import (
	"bufio"
	"fmt"
	"net/http"
	"net/http/httptest"
	"os"
	"path/filepath"
	"regexp"
	"sort"
	"strings"
	"unicode"

	"github.com/gookit/rux"
)

// engine static (C17): the real StaticDir / StaticFS / StaticFiles / StaticFile handlers, end to end, on a
// sandbox tree on disk, against the Lean model of the flow
//
//	URL.Path -> route capture -> StripPrefix -> FileServer -> path.Clean -> http.Dir.Open -> file.
//
// ops (byte strings hex encoded, "-" = empty):
//
//	tree <files> <dirs>                       paths relative to the sandbox root "www" ("/a.css", "/css/site.css")
//	mount <kind> <enc> <prefix> <exts> <target>
//	      kind = dir|fs|files|file, enc = 1 for rux.UseEncodedPath, exts = list of alternatives,
//	      target = directory below www that is served ("-" = www itself) resp. the file for kind=file
//	req <request-target> <URL.Path> <URL.RawPath> <URL.EscapedPath()>
//	      the last three are what net/http's parser made of the request target when the case was
//	      generated; Run parses the raw request line again and checks that they agree
//	rawbad <request-target>                   a target that net/http refuses to parse (never reaches rux)
//	gvar <name> <regex>                       the application has called rux.SetGlobalVar(name, regex) before it
//	      registers the NEXT mount (several gvar lines accumulate; the mount consumes them).  rux keeps global
//	      path vars in a package-level map, so Run defines them only for the duration of the registration
//	      (routes are compiled at registration) and restores the map before the mount op returns, also on a
//	      panic.  A global var is only the default of a route var WITHOUT inline regex; the static handlers'
//	      routes all have one ("{file:.+}", "{file:.+\.(?:exts)}"), so the model ignores gvar.
//	sibling <POST|PUT|DELETE> <regex|->       the application registers `<METHOD> <prefix>/{file[:regex]}` on the router
//	      right before the NEXT mount (an upload / purge end point under the asset prefix).  Every request of this
//	      engine is a GET, so the model ignores it.
//	viasym                                    the root of the NEXT mount is handed to rux as a symbolic link to www+target
//	addmount <kind> <flags> <prefix> <exts> <target>   one more Static* call on the same router (engine_static_multi.go)
//	grow <files> <dirs>                       further paths appear in the tree, the mount stays (engine_static_root.go:
//	      roots that are missing at registration, are created later, are (dangling) links)
//
// answer of req:  "<status class> <what was served>" ;; "<status> <names given to FileSystem.Open (kind fs)>"
// Location headers, error texts and content types are deliberately not part of the answer.
type staticEngine struct{}

func init() { register(staticEngine{}) }

func (staticEngine) Name() string         { return "static" }
func (staticEngine) DriverEngine() string { return "static" }

func (staticEngine) Budget(tier string) int {
	if tier == "thorough" {
		return 15000
	}
	return 500
}

const (
	secretParent  = "TOP-SECRET: parent directory of the root\n"
	secretSibling = "TOP-SECRET: sibling directory www-private\n"
	secretIndex   = "TOP-SECRET: index page of www-private\n"
)

/**************** sandbox ****************/

type sandbox struct {
	base     string            // temp dir
	root     string            // base/www
	content  map[string]string // body -> rel path of the file under www
	listing  map[string]string // listing body -> rel path of the directory under www ("/" = www)
	outside  map[string]string // listing body of a directory outside www -> its path
	files    []string
	dirs     []string
	hasFiles bool
}

func fileBody(rel string) string { return "file<" + hx(rel) + ">\n" }

func workDir() string {
	if w := os.Getenv("VERIF_WORK"); w != "" {
		if st, err := os.Stat(w); err == nil && st.IsDir() {
			return w
		}
	}
	return ""
}

func newSandbox(files, dirs []string) (*sandbox, error) {
	base, err := os.MkdirTemp(workDir(), "c17-box-")
	if err != nil {
		return nil, err
	}
	// the paths must not go through symlinks, and they must be clean: the model assumes a clean absolute root
	if b, err := filepath.EvalSymlinks(base); err == nil {
		base = b
	}
	sb := &sandbox{base: base, root: filepath.Join(base, "www"), content: map[string]string{}, listing: map[string]string{},
		outside: map[string]string{}, files: files, dirs: dirs}
	fail := func(err error) (*sandbox, error) { sb.close(); return nil, err }
	if err := os.MkdirAll(sb.root, 0o755); err != nil {
		return fail(err)
	}
	if err := os.MkdirAll(filepath.Join(base, "www-private"), 0o755); err != nil {
		return fail(err)
	}
	for _, d := range dirs {
		if err := os.MkdirAll(sb.root+d, 0o755); err != nil {
			return fail(err)
		}
	}
	for _, f := range files {
		if err := os.MkdirAll(filepath.Dir(sb.root+f), 0o755); err != nil {
			return fail(err)
		}
		if err := os.WriteFile(sb.root+f, []byte(fileBody(f)), 0o644); err != nil {
			return fail(err)
		}
		sb.content[fileBody(f)] = f
	}
	// (each secret also as the pre-compressed sidecar `<name>.gz` an asset pipeline may have left, same recognisable content)
	for name, body := range map[string]string{"secret.css": secretParent, "www-private/secret.css": secretSibling, "www-private/index.html": secretIndex,
		"secret.css.gz": secretParent, "www-private/secret.css.gz": secretSibling} {
		if err := os.WriteFile(filepath.Join(base, name), []byte(body), 0o644); err != nil {
			return fail(err)
		}
	}
	// the listing net/http generates for every directory (computed with net/http itself, on the directory alone)
	err = filepath.Walk(base, func(p string, info os.FileInfo, err error) error {
		if err != nil || !info.IsDir() {
			return err
		}
		if _, e := os.Stat(filepath.Join(p, "index.html")); e == nil {
			// never listed: answered with its index page (or, when index.html is a directory, with the
			// listing of that directory)
			return nil
		}
		w := httptest.NewRecorder()
		rq := httptest.NewRequest("GET", "/", nil)
		http.FileServer(http.Dir(p)).ServeHTTP(w, rq)
		if w.Code != 200 {
			return nil
		}
		body := w.Body.String()
		if p == sb.root {
			sb.listing[body] = "/"
		} else if strings.HasPrefix(p, sb.root+"/") {
			rel := p[len(sb.root):]
			if old, dup := sb.listing[body]; !dup || rel < old {
				sb.listing[body] = rel
			}
		} else {
			sb.outside[body] = p
		}
		return nil
	})
	if err != nil {
		return fail(err)
	}
	return sb, nil
}

func (sb *sandbox) close() {
	if sb != nil && sb.base != "" {
		_ = os.RemoveAll(sb.base)
	}
}

/**************** request parsing ****************/

// parseTarget lets net/http's server-side parser read "GET <target> HTTP/1.1".
func parseTarget(target string) (*http.Request, error) {
	raw := "GET " + target + " HTTP/1.1\r\nHost: verif.test\r\n\r\n"
	return http.ReadRequest(bufio.NewReader(strings.NewReader(raw)))
}

// reqOp builds the op line for a request target.
func reqOp(target string) string {
	if strings.ContainsAny(target, "\r\n") {
		return "rawbad " + hx(target)
	}
	rq, err := parseTarget(target)
	if err != nil {
		return "rawbad " + hx(target)
	}
	return fmt.Sprintf("req %s %s %s %s", hx(target), hx(rq.URL.Path), hx(rq.URL.RawPath), hx(rq.URL.EscapedPath()))
}

/**************** FileSystem wrapper for kind fs ****************/

type recFS struct {
	inner http.FileSystem
	names *[]string
}

func (f recFS) Open(name string) (http.File, error) {
	*f.names = append(*f.names, name)
	return f.inner.Open(name)
}

/**************** Run ****************/

type mountCfg struct {
	kind   string
	enc    bool
	strict bool
	prefix string
	exts   []string
	target string // rel below www ("" = www), for kind=file the rel path of the file
}

// normReqPath: the request path as the router normalises it (C11): white space trimmed, trailing slashes
// (and white space in front of them) dropped.  Written here independently of the model for the oracle.
func normReqPath(p string, strict bool) string {
	p = strings.TrimSpace(p)
	if !strict && strings.HasSuffix(p, "/") {
		p = strings.TrimRightFunc(p, func(c rune) bool { return c == '/' || unicode.IsSpace(c) })
	}
	return p
}

func hasAllowedExt(name string, exts []string) bool {
	for _, e := range exts {
		if strings.HasSuffix(name, "."+e) && len(name) > len(e)+1 {
			return true
		}
	}
	return false
}

func splitHexList(s string) ([]string, bool) {
	if s == "-" {
		return nil, true
	}
	var out []string
	for _, x := range strings.Split(s, ",") {
		v, ok := unhx(x)
		if !ok {
			return nil, false
		}
		out = append(out, v)
	}
	return out, true
}

// withGlobalVars runs f with the given global path vars defined (in order; a later definition of a name
// wins, as with rux.SetGlobalVar) and puts rux's package-level map back exactly as it was, also when f panics.
func withGlobalVars(vars [][2]string, f func()) {
	if len(vars) == 0 {
		f()
		return
	}
	gv := rux.GetGlobalVars()
	before := make(map[string]string, len(gv))
	for k, v := range gv {
		before[k] = v
	}
	defer func() {
		for k := range gv {
			if _, had := before[k]; !had {
				delete(gv, k)
			}
		}
		for k, v := range before {
			gv[k] = v
		}
	}()
	for _, nv := range vars {
		rux.SetGlobalVar(nv[0], nv[1])
	}
	f()
}

func (staticEngine) Run(ops []string) (ans []string, oracle []string) {
	var sb *sandbox
	defer func() { sb.close() }()
	var router *rux.Router
	var cfg mountCfg
	var fsNames []string
	var gvars [][2]string    // defined by gvar ops, consumed by the next mount
	var siblings [][2]string // (method, regex) of the sibling ops, consumed by the next mount
	var viaSym bool          // set by viasym, consumed by the next mount
	var mounts []mountCfg    // all mounts of the current router (mount + addmount)

	ensureBox := func() error {
		if sb != nil {
			return nil
		}
		var err error
		sb, err = newSandbox(nil, nil)
		return err
	}

	for _, op := range ops {
		f := strings.Fields(op)
		a := func() (res string) {
			defer func() {
				if v := recover(); v != nil {
					res = panicClass(v)
				}
			}()
			switch {
			case f[0] == "tree" && len(f) == 3:
				files, ok1 := splitHexList(f[1])
				dirs, ok2 := splitHexList(f[2])
				if !ok1 || !ok2 {
					return "bad-op"
				}
				sb.close()
				sb, router = nil, nil
				var err error
				sb, err = newSandbox(files, dirs)
				if err != nil {
					panic("harness: cannot build the sandbox: " + err.Error())
				}
				return "ok"

			case f[0] == "gvar" && len(f) == 3:
				n, ok1 := unhx(f[1])
				v, ok2 := unhx(f[2])
				if !ok1 || !ok2 || n == "" {
					return "bad-op"
				}
				gvars = append(gvars, [2]string{n, v})
				return "ok"

			case f[0] == "sibling" && len(f) == 3:
				re, ok := unohx(f[2])
				if (f[1] != "POST" && f[1] != "PUT" && f[1] != "DELETE") || (f[2] != "-" && !ok) {
					return "bad-op"
				}
				siblings = append(siblings, [2]string{f[1], re})
				return "ok"

			case f[0] == "viasym" && len(f) == 1:
				viaSym = true
				return "ok"

			case f[0] == "grow" && len(f) == 3:
				files, ok1 := splitHexList(f[1])
				dirs, ok2 := splitHexList(f[2])
				if !ok1 || !ok2 {
					return "bad-op"
				}
				if err := ensureBox(); err != nil {
					panic("harness: cannot build the sandbox: " + err.Error())
				}
				stRootGrow(sb, files, dirs)
				return "ok"

			case (f[0] == "mount" || f[0] == "addmount") && len(f) == 6:
				add, prev := f[0] == "addmount", router
				if add && (prev == nil || len(mounts) == 0) {
					return "unsupported"
				}
				pending := gvars
				gvars = nil
				sym := viaSym
				viaSym = false
				if err := ensureBox(); err != nil {
					panic("harness: cannot build the sandbox: " + err.Error())
				}
				exts, ok := splitHexList(f[4])
				if !ok {
					return "bad-op"
				}
				flags := atoi(f[2])
				cfg = mountCfg{kind: f[1], enc: flags&1 != 0, strict: flags&4 != 0, prefix: mustUnhx(f[3]), exts: exts, target: mustUnhx(f[5])}
				router = nil
				if add { // router options are what the mount op said; routes that overlap are not modelled
					cfg.enc, cfg.strict = mounts[0].enc, mounts[0].strict
					for _, m := range mounts {
						if !stMultiDisjoint(m, cfg) {
							mounts = nil
							return "unsupported"
						}
					}
				}
				var opts []func(*rux.Router)
				if cfg.enc {
					opts = append(opts, rux.UseEncodedPath)
				}
				if flags&2 != 0 {
					opts = append(opts, rux.EnableCaching)
				}
				if cfg.strict {
					opts = append(opts, rux.StrictLastSlash)
				}
				if n := (flags >> 3) & 3; n > 0 {
					// one option value per capacity for every router of the process (a shared `opts` slice)
					opt, ok := sharedCachingOpts[n]
					if !ok {
						opt = rux.CachingWithNum(uint16(n))
						sharedCachingOpts[n] = opt
					}
					opts = append(opts, opt)
				}
				r := rux.New(opts...)
				if add {
					r = prev
				}
				dir := sb.root + cfg.target
				stRootSecrets(sb)
				if sym {
					dir = stRootLink(sb, dir)
				}
				// sibling routes: `<METHOD> <prefix>/{file[:regex]}` registered BEFORE the static handler (an upload or purge
				// end point under the asset prefix); a registration that rux refuses is skipped
				for _, sbl := range siblings {
					pat := cfg.prefix + "/{file}"
					if sbl[1] != "" {
						pat = cfg.prefix + "/{file:" + sbl[1] + "}"
					}
					func() {
						defer func() { _ = recover() }()
						r.Add(pat, func(c *rux.Context) { c.SetStatus(204) }, sbl[0])
					}()
				}
				siblings = nil
				known := true
				withGlobalVars(pending, func() {
					switch cfg.kind {
					case "dir":
						r.StaticDir(cfg.prefix, dir)
					case "fs":
						r.StaticFS(cfg.prefix, recFS{http.Dir(dir), &fsNames})
					case "files":
						r.StaticFiles(cfg.prefix, dir, strings.Join(exts, "|"))
					case "file":
						r.StaticFile(cfg.prefix, dir)
					default:
						known = false
					}
				})
				if !known {
					return "bad-op"
				}
				if cfg.kind == "files" {
					// the extension list becomes part of the route's regular expression: a list that is no regular
					// expression must be refused (registration panics), not turned into a route that serves something else
					if _, err := regexp.Compile(`^.+\.(?:` + strings.Join(exts, "|") + `)$`); err != nil {
						oracle = append(oracle, fmt.Sprintf("C17 extensions: StaticFiles accepted the extension list %q, which is not a regular expression (%v)", strings.Join(exts, "|"), err))
					}
				}
				router = r
				if add {
					mounts = append(mounts, cfg)
				} else {
					mounts = []mountCfg{cfg}
				}
				return "ok"

			case f[0] == "rawbad" && len(f) == 2:
				t := mustUnhx(f[1])
				if !strings.ContainsAny(t, "\r\n") {
					if _, err := parseTarget(t); err == nil {
						return "accepted"
					}
				}
				return "rejected"

			case f[0] == "req" && len(f) == 5:
				if router == nil {
					return "unsupported"
				}
				target := mustUnhx(f[1])
				rq, err := parseTarget(target)
				if err != nil {
					return "harness: request target does not parse"
				}
				if hx(rq.URL.Path) != f[2] || hx(rq.URL.RawPath) != f[3] || hx(rq.URL.EscapedPath()) != f[4] {
					return "harness: op line disagrees with net/http's parse of the target"
				}
				rq.Header.Set("Accept-Encoding", "gzip, deflate, br") // what every browser sends; the static handlers do not compress
				reqPath := rq.URL.Path
				if cfg.enc {
					reqPath = rq.URL.EscapedPath()
				}
				cfg := cfg
				if len(mounts) > 1 { // several mounts: the oracles judge against the one the path falls under
					cfg = stMultiPick(mounts, reqPath)
				}
				fsNames = fsNames[:0]
				w := httptest.NewRecorder()
				func() {
					defer stRootChdir(sb.base)() // the process works next to the root, where the secrets are
					router.ServeHTTP(w, rq)
				}()
				body := w.Body.String()
				code := w.Code

				// ---- what was served, judged from the bytes alone ----
				served := "-"
				under := sb.root + cfg.target // what the configuration allows
				for _, sec := range []string{secretParent, secretSibling, secretIndex} {
					if strings.Contains(body, strings.TrimSpace(sec)) {
						oracle = append(oracle, fmt.Sprintf("C17 confinement: %s %q answered %d with the content of a file outside the root (%q)", cfg.kind, target, code, strings.TrimSpace(sec)))
					}
				}
				if code == 200 {
					if rel, ok := sb.content[body]; ok {
						served = "file:" + hx(rel)
						full := sb.root + rel
						if cfg.kind == "file" {
							// the configured path itself, or (when it is a directory) its index page
							if full != under && full != under+"/index.html" {
								oracle = append(oracle, fmt.Sprintf("C17 single file: StaticFile(%q) answered %q with the file %q", cfg.target, target, rel))
							}
						} else if !strings.HasPrefix(full, under+"/") {
							oracle = append(oracle, fmt.Sprintf("C17 confinement: %s root %q answered %q with the file %q", cfg.kind, "www"+cfg.target, target, rel))
						}
						if cfg.kind == "files" {
							if !hasAllowedExt(rel, cfg.exts) {
								oracle = append(oracle, fmt.Sprintf("C17 extensions: StaticFiles(%v) served the file %q for %q", cfg.exts, rel, target))
							}
							if !hasAllowedExt(normReqPath(reqPath, cfg.strict), cfg.exts) {
								oracle = append(oracle, fmt.Sprintf("C17 extensions: StaticFiles(%v) answered 200 for the request path %q", cfg.exts, reqPath))
							}
						}
					} else if rel, ok := sb.listing[body]; ok {
						served = "list:" + hx(rel)
						full := sb.root + strings.TrimSuffix(rel, "/")
						if rel == "/" {
							full = sb.root
						}
						if cfg.kind == "files" || (cfg.kind == "file" && full != under && full != under+"/index.html") ||
							(full != under && !strings.HasPrefix(full, under+"/")) {
							oracle = append(oracle, fmt.Sprintf("C17 confinement: %s root %q answered %q with the listing of %q", cfg.kind, "www"+cfg.target, target, rel))
						}
					} else if p, ok := sb.outside[body]; ok {
						served = "list:OUTSIDE"
						oracle = append(oracle, fmt.Sprintf("C17 confinement: %s answered %q with the listing of the directory %q outside the root", cfg.kind, target, p))
					} else {
						served = "unknown-body"
						oracle = append(oracle, fmt.Sprintf("C17 confinement: %s answered %q with 200 and a body that is no file or listing of the sandbox: %.80q", cfg.kind, target, body))
					}
				} else if cfg.kind == "files" && code/100 == 2 {
					oracle = append(oracle, fmt.Sprintf("C17 extensions: StaticFiles answered %d for %q", code, target))
				}
				names := "-"
				if cfg.kind == "fs" {
					names = hxList(fsNames)
				}
				return fmt.Sprintf("%d %s ;; %d %s", code/100, served, code, names)
			}
			return "bad-op"
		}()
		ans = append(ans, a)
	}
	return
}

/**************** corpus ****************/

var (
	baseFiles = []string{"/a.css", "/x.ejs", "/nodejs", "/index.html", "/.hidden", "/css/site.css", "/css/index.html", "/js/app.js",
		"/sub/deep/d.js", "/secret.css", "/www-private/secret.css", "/%2e%2e/p.css", "/a.css.bak", "/d.css/in.css"}
	baseDirs = []string{"/css", "/js", "/sub", "/sub/deep", "/www-private", "/%2e%2e", "/d.css", "/empty"}
)

func treeOp(files, dirs []string) string {
	return "tree " + hxList(files) + " " + hxList(dirs)
}

func mountOp(kind string, enc bool, prefix string, exts []string, target string) string {
	fl := 0
	if enc {
		fl = 1
	}
	return mountOpF(kind, fl, prefix, exts, target)
}

func mountOpF(kind string, flags int, prefix string, exts []string, target string) string {
	return fmt.Sprintf("mount %s %d %s %s %s", kind, flags, hx(prefix), hxList(exts), hx(target))
}

func siblingOp(method, regex string) string {
	if regex == "" {
		return "sibling " + method + " -"
	}
	return "sibling " + method + " " + hx(regex)
}

func gvarOp(name, regex string) string { return "gvar " + hx(name) + " " + hx(regex) }

func reqOps(targets ...string) []string {
	out := make([]string, len(targets))
	for i, t := range targets {
		out[i] = reqOp(t)
	}
	return out
}

func (staticEngine) Corpus() []Case {
	tree := treeOp(baseFiles, baseDirs)
	var cases []Case
	attack := func(p string) []string {
		return []string{
			p + "/a.css", p + "/css/site.css", p + "/css/", p + "/css", p + "/css/index.html", p + "/", p, p + "/nodejs", p + "/x.ejs",
			p + "/../secret.css", p + "/%2e%2e/secret.css", p + "/..%2fsecret.css", p + "/%2e%2e%2fsecret.css",
			p + "/../secret.css?download", p + "/%2e%2e/secret.css?download=1", p + "/sub/../../secret.css?download", p + "/a.css?download", p + "/%2e%2e%2fsecret.css?attachment=1&download",
			p + "/../www-private/secret.css", p + "/%2e%2e/www-private/secret.css", p + "/..%2fwww-private%2fsecret.css",
			p + "/css/../../www-private/secret.css", p + "/css/..%2f..%2fwww-private/secret.css",
			p + "/../www/a.css", p + "/..%5c..%5csecret.css", p + "/..\\secret.css", p + "/%2e%2e%5csecret.css",
			p + "/....//secret.css", p + "/.../secret.css", p + "/%252e%252e/secret.css", p + "/%2e%2e/p.css", p + "/%252e%252e/p.css",
			p + "//secret.css", p + "//a.css", p + "///css//site.css", "/" + p + "/a.css", p + "/./a.css", p + "/css/./site.css", p + "/css/%2e/site.css",
			p + "/a.css%00", p + "/a.css%00.css", p + "/%00", p + "/a.css.", p + "/a.css..", p + "/a.css/", p + "/a.css/.", p + "/a.css/./", p + "/a.css/..", p + "/a.css/../",
			p + "/a.css%20", p + "/a.css%09", p + "/%20a.css", p + "/a.css%c2%85", p + "/a.css/%20/", p + "/a.css%0a", p + "/a%0a.css",
			p + "/%ff.css", p + "/%c3%a9.css", p + "/a.cs%73", p + "/%61.css", p + "/A.CSS", p + "/a.css.bak", p + "/.hidden", p + "/.css", p + "/..css",
			p + "/d.css", p + "/d.css/", p + "/d.css/in.css", p + "/empty", p + "/empty/", p + "/index.html", p + "/secret.css", p + "/www-private/secret.css",
			p + "/css%2fsite.css", p + "/css%2Fsite.css", p + "/css%5csite.css", p + "/a.css?x=../secret.css", p + "/a.css#/../secret.css",
			"http://verif.test" + p + "/a.css", "http://verif.test" + p + "/../secret.css", p + "/%", p + "/%zz", p + "/%2",
		}
	}
	for _, enc := range []bool{false, true} {
		for _, cfg := range []struct {
			kind, prefix string
			exts         []string
			target       string
		}{
			{"dir", "/static", nil, ""}, {"fs", "/fs/x", nil, ""}, {"dir", "", nil, ""}, {"dir", "/static", nil, "/css"},
			{"files", "/assets", []string{"css", "js"}, ""}, {"files", "/assets", []string{"js", "ejs"}, ""}, {"files", "", []string{"css"}, ""},
			{"files", "/v1.0/f", []string{"html", "css"}, "/css"}, {"fs", "", nil, "/sub"},
		} {
			ops := []string{tree, mountOp(cfg.kind, enc, cfg.prefix, cfg.exts, cfg.target)}
			ops = append(ops, reqOps(attack(cfg.prefix)...)...)
			cases = append(cases, Case{Ops: ops, Tag: "corpus-" + cfg.kind})
		}
		// single files: a file, a path ending in index.html, a directory, a missing file
		for _, sf := range [][2]string{{"/one.js", "/a.css"}, {"/dl/index.html", "/css/index.html"}, {"/d", "/css"}, {"/gone", "/nope.css"}, {"/x/one.css", "/sub/deep/d.js"}} {
			ops := []string{tree, mountOp("file", enc, sf[0], nil, sf[1])}
			ops = append(ops, reqOps(sf[0], sf[0]+"/", sf[0]+"//", sf[0]+"%20", "/"+sf[0], sf[0]+"/..", sf[0]+"/../secret.css", sf[0]+"/%2e%2e",
				sf[0]+"?f=../secret.css", sf[0]+"/.", sf[0]+"x", "/", "/one", sf[0]+"%2f", sf[0]+"/%2e%2e/", sf[0]+"%5c..%5c")...)
			cases = append(cases, Case{Ops: ops, Tag: "corpus-file"})
		}
	}
	// StrictLastSlash and EnableCaching (every request twice: the second one is answered from the route cache)
	for _, fl := range []int{2, 4, 7} {
		for _, cfg := range []struct {
			kind, prefix string
			exts         []string
		}{{"dir", "/static", nil}, {"files", "/assets", []string{"css", "js"}}} {
			ops := []string{tree, mountOpF(cfg.kind, fl, cfg.prefix, cfg.exts, "")}
			for _, o := range reqOps(attack(cfg.prefix)...) {
				ops = append(ops, o, o)
			}
			cases = append(cases, Case{Ops: ops, Tag: "corpus-flags"})
		}
	}
	// long request paths on a caching router: a deep directory with a long name, several files in it that differ only
	// at the very end of the path (far behind the first hundred bytes), each requested twice and in both orders
	{
		long := "/" + strings.Repeat("l", 120)
		deep := long + "/" + strings.Repeat("m", 90)
		lf := []string{long + "/app.js", long + "/notes.md", long + "/site.css", deep + "/app.js", deep + "/readme.txt", deep + "/x.css"}
		ltree := treeOp(append(append([]string{}, baseFiles...), lf...), append(append([]string{}, baseDirs...), long, deep))
		for _, fl := range []int{2, 3, 8, 16} {
			for _, cfg := range []struct {
				kind, prefix string
				exts         []string
			}{{"files", "/assets", []string{"css", "js"}}, {"dir", "/static", nil}, {"files", "", []string{"js"}}, {"fs", "/fs/x", nil}} {
				ops := []string{ltree, mountOpF(cfg.kind, fl, cfg.prefix, cfg.exts, "")}
				var ts []string
				for _, f := range lf {
					ts = append(ts, cfg.prefix+f)
				}
				ops = append(ops, reqOps(ts...)...)
				for i := len(ts) - 1; i >= 0; i-- {
					ops = append(ops, reqOp(ts[i]), reqOp(ts[i]))
				}
				cases = append(cases, Case{Ops: ops, Tag: "corpus-longpath"})
			}
		}
	}
	// global path vars defined by the application before the handlers are registered; "file" is the name the
	// static handlers use for their own route var, all/any/num are rux's predefined ones.  The inline regex of
	// the static routes (for StaticFiles: the extension filter) must win over every one of them.
	for _, gc := range []struct {
		vars         [][2]string
		kind, prefix string
		exts         []string
		flags        int
	}{
		{[][2]string{{"file", `[\w.-]+`}}, "files", "/assets", []string{"css", "js"}, 0},
		{[][2]string{{"file", `.+`}}, "files", "/assets", []string{"css"}, 1},
		{[][2]string{{"file", `\d+`}}, "dir", "/static", nil, 0},
		{[][2]string{{"all", `x`}, {"any", `.+`}, {"num", `.*`}, {"file", `[^/]+`}, {"file", `[a-z]+\.txt`}, {"zz", `.+`}}, "fs", "/fs/x", nil, 2},
	} {
		ops := []string{tree}
		for _, nv := range gc.vars {
			ops = append(ops, gvarOp(nv[0], nv[1]))
		}
		if gc.flags == 1 { // and a DELETE end point under the same prefix, registered first
			ops = append(ops, siblingOp("DELETE", ""), siblingOp("POST", ".+"))
		}
		ops = append(ops, mountOpF(gc.kind, gc.flags, gc.prefix, gc.exts, ""))
		ops = append(ops, reqOps(attack(gc.prefix)...)...)
		// a second mount without definitions of its own: the first one's must be gone
		ops = append(ops, mountOpF("files", gc.flags, "/second", []string{"js", "html"}, ""))
		ops = append(ops, reqOps(attack("/second")...)...)
		cases = append(cases, Case{Ops: ops, Tag: "corpus-gvar"})
	}
	// odd prefixes; the last ones are outside the modelled fragment: implementation oracle only
	for _, cfg := range [][2]string{{"dir", "/"}, {"dir", "/static/"}, {"fs", "static"}, {"files", "/"}, {"dir", "/a b"}, {"dir", "/x+"}} {
		var exts []string
		if cfg[0] == "files" {
			exts = []string{"css", "html"}
		}
		ops := []string{tree, mountOp(cfg[0], false, cfg[1], exts, "")}
		ops = append(ops, reqOps(attack(strings.TrimSuffix(cfg[1], "/"))...)...)
		ops = append(ops, reqOps(attack(cfg[1])...)...)
		cases = append(cases, Case{Ops: ops, Tag: "corpus-oddprefix"})
	}
	// roots that are missing at registration, created later, (dangling) symbolic links
	cases = append(cases, stRootCorpus(tree, attack)...)
	// several mounts on one router with a small route cache
	cases = append(cases, stMultiCorpus(tree)...)
	return cases
}

/**************** generator ****************/

var (
	poolFiles = []string{"/a.css", "/x.ejs", "/nodejs", "/index.html", "/.hidden", "/css/site.css", "/css/index.html", "/js/app.js", "/js/lib.min.js",
		"/sub/deep/d.js", "/sub/deep/index.html", "/secret.css", "/www-private/secret.css", "/%2e%2e/p.css", "/a.css.bak", "/d.css/in.css", "/b.JS",
		"/..a", "/a..", "/css/..css", "/back\\slash.css", "/sp ace.css", "/a.css ", "/\xc3\xa9.css", "/a\n.css", "/.git/config", "/%41.css", "/...", "/css/...",
		"/a.css.", "/js", "/www", "/www/a.css", "/t.txt", "/sub/t.html", "/.css", "/js/.js"}
	poolDirs = []string{"/css", "/js", "/sub", "/sub/deep", "/www-private", "/%2e%2e", "/d.css", "/empty", "/.git", "/www", "/sub/index.html", "/css/css", "/ dir"}
	extSets  = [][]string{{"css", "js"}, {"css"}, {"js", "ejs"}, {"html", "htm"}, {"txt"}, {"css", "js", "html"}, {"JS"}, {"bak"}, {"s"},
		// lists that are no regular expression (glob habits, stray characters): registration must refuse them
		{"*.css", "*.js"}, {"css", "js", "c++"}, {"css", "[ch"}, {"css", "js", "*"}}
	prefixes = []string{"/static", "/static", "/assets", "/a/b", "", "/v1.0", "/fs/x/y", "/s-t_u~v", "/css", "/www",
		"/", "/static/", "static", "//a", "/a/../b", "/a//b", "/.", "/a/"}
	// global path vars an application may have defined before it registers the static handlers: the name the
	// static handlers use themselves, rux's predefined names, names of the application's own
	gvarNames = []string{"file", "file", "file", "file", "all", "any", "num", "name", "ext", "zz9"}
	gvarRegex = []string{`[\w.-]+`, `.+`, `.*`, `[^/]+`, `\d+`, `[a-z]+\.txt`, `.+\.(?:bak|txt|html)`, `[1-9][0-9]*`, `\w+`, `[^.]+`, `.+\.css`, `(`}
	// pieces a request path is assembled from
	attackSegs = []string{"..", "..", "..", ".", "", "", "...", "....", "www", "www-private", "secret.css", "index.html", "%2e%2e", "%2E%2E", "%2e.", ".%2e",
		"%252e%252e", "..%2f", "..%2F..", "%2e%2e%2f", "..%5c", "..\\", "\\", "%5c", "%00", "a.css%00", "%00.css", "a.css.", "a.css%20", "%20", "a.css%09",
		"%c2%85", "%e2%80%a8", "%ff", "%c0%af", "%c0%ae%c0%ae", "%0a", "a%0a.css", "%2f", "%2F", ".css", "..css", "x.css", "X.CSS", "a.CSS", "nodejs", "x.ejs", "~",
		"a.css;x", "a.css%3f", "%23", "%25", "%252f", "a.css.bak", "a.css%2f", "a.css%2f.", "css%2fsite.css"}
)

func pctEncodeSome(r *Rand, s string, num, den int) string {
	var sb strings.Builder
	for i := 0; i < len(s); i++ {
		c := s[i]
		must := c <= 0x20 || c >= 0x7f || c == '%' || c == '?' || c == '#'
		if c == '%' && r.Chance(1, 3) {
			must = false // leave a literal %xx of a file name alone: it is then decoded by the server
		}
		if c >= 0x80 && r.Chance(1, 6) {
			must = false // raw high byte in the request line
		}
		if must || r.Chance(num, den) {
			if r.Bool() {
				fmt.Fprintf(&sb, "%%%02x", c)
			} else {
				fmt.Fprintf(&sb, "%%%02X", c)
			}
		} else {
			sb.WriteByte(c)
		}
	}
	return sb.String()
}

func genTree(r *Rand) (files, dirs []string) {
	seenF := map[string]bool{}
	isDir := map[string]bool{}
	n := r.Range(3, 14)
	for i := 0; i < n; i++ {
		seenF[poolFiles[r.Intn(len(poolFiles))]] = true
	}
	for _, must := range []string{"/a.css", "/css/site.css"} {
		if r.Chance(4, 5) {
			seenF[must] = true
		}
	}
	nd := r.Range(0, 5)
	for i := 0; i < nd; i++ {
		isDir[poolDirs[r.Intn(len(poolDirs))]] = true
	}
	// a file's ancestors are directories; a path cannot be both
	for f := range seenF {
		for p := filepath.Dir(f); p != "/" && p != "."; p = filepath.Dir(p) {
			isDir[p] = true
		}
	}
	for f := range seenF {
		if isDir[f] {
			delete(seenF, f)
		}
	}
	for d := range isDir {
		for p := filepath.Dir(d); p != "/" && p != "."; p = filepath.Dir(p) {
			if seenF[p] {
				delete(seenF, p)
			}
			isDir[p] = true
		}
	}
	for f := range seenF {
		files = append(files, f)
	}
	for d := range isDir {
		dirs = append(dirs, d)
	}
	sort.Strings(files)
	sort.Strings(dirs)
	// listings identify a directory by its entries: keep at most one childless directory
	// (every other directory contains a distinctly named path). Dropping one can empty its parent: iterate.
	keep := dirs
	for {
		children := map[string]int{}
		for _, p := range append(append([]string{}, files...), keep...) {
			children[filepath.Dir(p)]++
		}
		var next []string
		empties := 0
		for _, d := range keep {
			if children[d] == 0 {
				empties++
				if empties > 1 {
					continue
				}
			}
			next = append(next, d)
		}
		if len(next) == len(keep) {
			break
		}
		keep = next
	}
	return files, keep
}

func genTarget(r *Rand, prefix string, files, dirs []string) string {
	pick := func() string {
		switch r.Intn(3) {
		case 0:
			if len(files) > 0 {
				return files[r.Intn(len(files))]
			}
		case 1:
			if len(dirs) > 0 {
				d := dirs[r.Intn(len(dirs))]
				if r.Bool() {
					d += "/"
				}
				return d
			}
		}
		return poolFiles[r.Intn(len(poolFiles))]
	}
	pfx := prefix
	switch r.Intn(14) {
	case 0:
		pfx = "/" + prefix
	case 1:
		pfx = pctEncodeSome(r, prefix, 1, 4)
	case 2:
		pfx = prefixes[r.Intn(len(prefixes))]
	case 3:
		pfx = prefix + "/.."
	}
	var tail string
	switch r.Intn(10) {
	case 0, 1: // an existing path, maybe partly encoded
		tail = pctEncodeSome(r, pick(), 1, r.PickInt([]int{3, 8, 1000}))
	case 2: // existing path with a decoration
		tail = pctEncodeSome(r, pick(), 0, 1) + r.Pick([]string{"/", "/.", "/./", "/..", "%20", ".", "%00", "/index.html", "//", "%2f", "?a=/../secret.css", "#x", "%0a", "\\", "/%2e%2e/"})
	case 6: // an existing path written the long way round: resolves inside the root, must be served
		p := pick()
		var out []string
		for i, n := 0, r.Intn(3); i < n; i++ { // climbing above the root is clamped at the root
			out = append(out, r.Pick([]string{"..", "%2e%2e", ".%2e", "%2E."}))
		}
		for _, sg := range strings.Split(strings.TrimPrefix(p, "/"), "/") {
			switch r.Intn(6) {
			case 0:
				out = append(out, "x", "..")
			case 1:
				out = append(out, ".")
			case 2:
				out = append(out, "")
			case 3:
				out = append(out, "y", "z", "%2e%2e", "..")
			}
			out = append(out, pctEncodeSome(r, sg, 1, 6))
		}
		tail = "/" + strings.Join(out, "/")
	case 3, 4, 5: // traversal soup
		n := r.Range(1, 6)
		segs := make([]string, n)
		for i := range segs {
			if r.Chance(1, 4) {
				segs[i] = strings.TrimPrefix(pctEncodeSome(r, pick(), 0, 1), "/")
			} else {
				segs[i] = attackSegs[r.Intn(len(attackSegs))]
			}
		}
		tail = "/" + strings.Join(segs, "/")
	case 7: // climb out and come back in / reach the secrets by name
		up := strings.Repeat(r.Pick([]string{"../", "%2e%2e/", "..%2f", "%2e%2e%2f", "..\\", "..%5c", "./../", "..//"}), r.Range(1, 4))
		tail = "/" + r.Pick([]string{"", "css/", "css/deep/", "a.css/"}) + up + r.Pick([]string{"secret.css", "www-private/secret.css", "www-private/", "www-private/index.html", "www/a.css", "www/css/site.css", "", "www"})
	case 8: // extension games
		tail = "/" + r.Pick([]string{"a", "a.css", "css/site", "x", "nodejs", ".", "..", "", "d.css/in", "secret"}) + r.Pick([]string{".css", ".js", ".ejs", "js", ".css.", ".css%20", ".css/", ".css%00", ".CSS", ".css.bak", ".cs%73", "%2ecss", ".css%2f", ".css/..", ".html", ".css%0a", ".css?x.js", ".bak.css"})
	default: // arbitrary printable soup
		n := r.Range(0, 10)
		alpha := "/./..%2e%2f%5c\\ab.css%00 "
		b := make([]byte, n)
		for i := range b {
			b[i] = alpha[r.Intn(len(alpha))]
		}
		tail = "/" + strings.ReplaceAll(string(b), " ", "%20")
	}
	t := pfx + tail
	if !strings.HasPrefix(t, "/") {
		t = "/" + t
	}
	if r.Chance(1, 40) {
		t = "http://verif.test" + t
	}
	return t
}

func (staticEngine) Gen(r *Rand, tier string) Case {
	if r.Chance(1, 12) { // streams root-*: the root is missing / appears later / is a (dangling) link
		return stRootGen(r, tier)
	}
	if r.Chance(1, 12) { // stream multi: several mounts with roots of their own, a route cache of 1..3 entries
		return stMultiGen(r, tier)
	}
	files, dirs := genTree(r)
	ops := []string{treeOp(files, dirs)}
	nm := r.Range(1, 3)
	tag := ""
	withG := false
	for i := 0; i < nm; i++ {
		kind := r.Pick([]string{"dir", "dir", "fs", "files", "files", "files", "file"})
		enc := r.Chance(1, 3)
		prefix := prefixes[r.Intn(len(prefixes))]
		var exts []string
		target := ""
		if r.Chance(1, 4) && len(dirs) > 0 {
			target = dirs[r.Intn(len(dirs))]
		}
		switch kind {
		case "files":
			exts = extSets[r.Intn(len(extSets))]
		case "file":
			prefix = r.Pick([]string{"/one.js", "/dl/a.css", "/f/index.html", "/x", "/a.css"})
			switch {
			case r.Chance(3, 4) && len(files) > 0:
				target = files[r.Intn(len(files))]
			case r.Bool() && len(dirs) > 0:
				target = dirs[r.Intn(len(dirs))]
			default:
				target = "/missing.css"
			}
		}
		if tier == "thorough" && r.Chance(1, 25) { // outside the modelled fragment: oracle only
			prefix = r.Pick([]string{"/a b", "/st{a}tic", "/a[b]", " /x", "/x(y)", "/x+"})
		}
		flags := 0
		if enc {
			flags |= 1
		}
		if r.Chance(1, 5) {
			flags |= 2
		}
		if r.Chance(1, 5) {
			flags |= 4
		}
		tag = kind
		if r.Chance(1, 16) { // the application has defined global path vars of its own before this registration
			for k, n := 0, r.Range(1, 3); k < n; k++ {
				ops = append(ops, gvarOp(gvarNames[r.Intn(len(gvarNames))], gvarRegex[r.Intn(len(gvarRegex))]))
			}
			withG = true
		}
		if r.Chance(1, 12) { // an upload / purge end point `<prefix>/{file}` registered before the static handler
			for k, n := 0, r.Range(1, 2); k < n; k++ {
				ops = append(ops, siblingOp(r.Pick([]string{"POST", "PUT", "DELETE"}), r.Pick([]string{"", "", ".+", `[\w.-]+`, `\d+`})))
			}
			tag += "+sibling"
		}
		ops = append(ops, mountOpF(kind, flags, prefix, exts, target))
		nr := r.Range(6, 22)
		for j := 0; j < nr; j++ {
			if kind == "file" && r.Chance(1, 2) {
				ops = append(ops, reqOp(prefix+r.Pick([]string{"", "/", "//", "%20", "/..", "/%2e%2e", "/.", "/../secret.css", "?x=..", "%2f..", "/..%5c", "x", "/index.html"})))
				continue
			}
			if j > 0 && r.Chance(1, 8) { // a repeat (answered from the route cache when caching is on)
				ops = append(ops, ops[len(ops)-1-r.Intn(j)])
				continue
			}
			ops = append(ops, reqOp(genTarget(r, prefix, files, dirs)))
		}
	}
	if withG {
		tag += "+gvar"
	}
	return Case{Ops: ops, Tag: tag}
}
