package main

import (
	"reflect"
	"runtime"
	"sync"
	"time"
	"unsafe"
)

// engine lru (C14), scenario class "a Get / Has that overlaps with another user of the cache":
//
//	rget <key> | rhas <key>     the same call as get / has, made while another goroutine is inside a read
//	                            section of the cache's lock (a concurrent Len, VerifKeys, the lookup phase of a Get)
//
// The schedule is deterministic, no sleeps: the harness itself holds the read lock (standing for the
// concurrent reader), starts the call in a goroutine and leaves the read section as soon as either the call has
// returned (it did not need exclusive access) or a writer is queued on the lock (TryRLock fails from then on:
// the call waits for the reader).  Whatever the implementation does about locking, the call is an ordinary
// Get / Has of the history: the key read is the most recent one afterwards.  The model treats rget / rhas
// exactly like get / has.
//
// The lock is an unexported field of an unexported type of rux and verif_hooks.go has no accessor for it,
// so it is reached by reflection: a field of type sync.RWMutex of the value behind the pointer.  If there is
// none (the representation changed) the call is made without the overlap (counted in lruHeldStats).

func lruLockOf(c any) *sync.RWMutex {
	v := reflect.ValueOf(c)
	if v.Kind() != reflect.Pointer || v.IsNil() || v.Elem().Kind() != reflect.Struct {
		return nil
	}
	s := v.Elem()
	want := reflect.TypeOf(sync.RWMutex{})
	for i := 0; i < s.NumField(); i++ {
		f := s.Field(i)
		if f.Type() == want && f.CanAddr() {
			return (*sync.RWMutex)(unsafe.Pointer(f.UnsafeAddr()))
		}
		if f.Kind() == reflect.Pointer && f.Type().Elem() == want && !f.IsNil() {
			return (*sync.RWMutex)(f.UnsafePointer())
		}
	}
	return nil
}

// lruHeldStats: how often the overlap was arranged / the lock was not reachable / the call neither returned
// nor queued for the lock within a generous time.
var lruHeldStats struct{ held, noLock, timeout int }

// lruWhileRead runs call while the read lock lk is held by this goroutine (see above) and returns when the
// call has returned; nothing is held any more then.
func lruWhileRead(lk *sync.RWMutex, call func()) {
	if lk == nil {
		lruHeldStats.noLock++
		call()
		return
	}
	lruHeldStats.held++
	done := make(chan struct{})
	var pv any
	lk.RLock()
	go func() {
		defer close(done)
		defer func() { pv = recover() }()
		call()
	}()
	deadline := time.Now().Add(10 * time.Second)
wait:
	for {
		select {
		case <-done:
			break wait
		default:
		}
		if !lk.TryRLock() { // a writer is waiting for us
			break wait
		}
		lk.RUnlock()
		if time.Now().After(deadline) {
			lruHeldStats.timeout++
			break wait
		}
		runtime.Gosched()
	}
	lk.RUnlock()
	<-done
	if pv != nil {
		panic(pv)
	}
}

// lruHeldOp: one Get / Has in six is made while a reader is inside the cache.
func lruHeldOp(r *Rand, op string) string {
	if r.Chance(1, 6) {
		return "r" + op
	}
	return op
}

// Stats (StatsEngine): reported in the evidence, never compared.
func (lruEngine) Stats() map[string]int {
	return map[string]int{"held_calls": lruHeldStats.held, "lock_not_reachable": lruHeldStats.noLock, "held_timeouts": lruHeldStats.timeout}
}
