package main

import (
	"bytes"
	"fmt"
	"io"
	"net/http"
	"strconv"
	"strings"
)

// engine render (C19), scenario class "the source of Stream is a sized reader that has been partly consumed":
// the handler sniffed a magic prefix, did Seek, or read the head of a section before it hands the reader to
// Stream.  Such a reader still reports the ORIGINAL length by Size() (bytes.Reader, strings.Reader,
// io.SectionReader), only Len() / the bytes that follow say what is left.  Stream must deliver exactly what
// follows; whatever length it announces must be the length of that body.
//
// reader kinds 6..8 of the stream op (for the simple shapes of <reads>, like 1..5; the model ignores the kind:
// the reader delivers <reads>, nothing else):
//
//	6  *bytes.Reader over magic+data, the magic read off with io.ReadFull
//	7  *strings.Reader over junk+data, positioned by Seek
//	8  *io.SectionReader (a section in the middle of a larger ReaderAt), its head read off

const (
	rsMagic = "\x89RUX\r\n\x1a\n"
	rsJunk  = "0123456789-skipped-by-Seek-"
)

// rsPartReader: a sized reader whose unread rest is exactly data.
func rsPartReader(kind string, data []byte) io.Reader {
	switch kind {
	case "6":
		rd := bytes.NewReader(append([]byte(rsMagic), data...))
		head := make([]byte, len(rsMagic))
		if _, err := io.ReadFull(rd, head); err != nil || string(head) != rsMagic {
			panic("harness: cannot read the magic")
		}
		return rd
	case "7":
		rd := strings.NewReader(rsJunk + string(data))
		if _, err := rd.Seek(int64(len(rsJunk)), io.SeekStart); err != nil {
			panic("harness: cannot seek")
		}
		return rd
	default: // "8"
		whole := "before-the-section|" + rsMagic + string(data) + "|after-the-section"
		off := int64(len("before-the-section|"))
		rd := io.NewSectionReader(strings.NewReader(whole), off, int64(len(rsMagic)+len(data)))
		if _, err := io.CopyN(io.Discard, rd, int64(len(rsMagic))); err != nil {
			panic("harness: cannot read the head of the section")
		}
		return rd
	}
}

func rsIsPartKind(kind string) bool { return kind == "6" || kind == "7" || kind == "8" }

// rsSimpleReads: the shapes of <reads> that a plain in-memory reader can deliver (see streamReader)
func rsSimpleReads(reads string) bool {
	return reads == "-" || (!strings.Contains(reads, ",") && strings.HasSuffix(reads, ":f"))
}

// rsPartKind: half of the stream ops with a simple shape get a partly consumed sized reader.
func rsPartKind(r *Rand, reads, kind string) string {
	if rsSimpleReads(reads) && r.Chance(1, 2) {
		return r.Pick([]string{"6", "7", "8"})
	}
	return kind
}

// rsLengthOracle: rux itself never sets Content-Length.  If a helper announces one (and the request script did
// not set the header itself), it must be the length of the body that was written.
func rsLengthOracle(cfg rReqCfg, rec *renderRec, execs []rExec, escaped bool) (out []string) {
	if escaped || cfg.meth == "HEAD" {
		return
	}
	vals, ok := rec.hdr["Content-Length"]
	if !ok || len(vals) == 0 {
		return
	}
	for _, ex := range execs {
		if ex.panicked {
			return
		}
		if ex.f[0] == "hdr" && http.CanonicalHeaderKey(mustUnhx(ex.f[1])) == "Content-Length" {
			return
		}
	}
	for _, e := range rec.log {
		if e.kind == 'w' && (e.err || e.n != len(e.data)) {
			return
		}
	}
	body := rec.body()
	if n, err := strconv.ParseInt(vals[0], 10, 64); err != nil || n != int64(len(body)) {
		out = append(out, fmt.Sprintf("C19 body: Content-Length %q was announced for a body of %d bytes (%q)", vals[0], len(body), body))
	}
	return
}

// rsGenSized: requests whose helpers are Streams from partly consumed sized readers; a quarter of them are
// repeated behind a real net/http server (also in the quick tier).
func rsGenSized(r *Rand, tier string) Case {
	var ops []string
	for q, nreq := 0, r.PickInt([]int{1, 1, 2}); q < nreq; q++ {
		wkind := 0
		if r.Chance(1, 2) {
			wkind = r.Range(1, recVariantMask)
		}
		if r.Chance(1, 4) {
			wkind |= rkRoundTrip
		}
		ops = append(ops, fmt.Sprintf("req %s %s none %d", r.Pick([]string{"GET", "GET", "POST", "HEAD"}), rAccept(r), wkind))
		for i, n := 0, r.PickInt([]int{1, 1, 1, 2}); i < n; i++ {
			reads := "-"
			if r.Chance(9, 10) {
				reads = hx(rString(r, false)+r.Pick([]string{"x", "\n", "0123456789abcdef"})) + ":f"
			}
			st := r.PickInt(rStatuses)
			if r.Chance(1, 2) {
				st = 200
			}
			ops = append(ops, fmt.Sprintf("stream %d %s %s - %s", st, hx(r.Pick(rCTs)), reads, r.Pick([]string{"6", "7", "8", "6", "7", "8", "1", "5"})))
		}
		ops = append(ops, "end")
	}
	return Case{Ops: ops, Tag: "sized"}
}
