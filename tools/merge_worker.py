#!/usr/bin/env python3
"""resolve the expected conflicts of a worker merge: Driver.lean (union of imports and engine entries),
checks.json (union of properties/engines), MANIFEST.json + evidence (regenerated)."""
import json, re, subprocess, sys, os
os.chdir('/verif')
def show(ref, path):
    r = subprocess.run(['git','show',f'{ref}:{path}'],capture_output=True,text=True)
    return r.stdout if r.returncode==0 else None
theirs = sys.argv[1]
# Driver.lean
ours_d = show('HEAD','lean/Driver.lean'); th_d = show(theirs,'lean/Driver.lean')
imports = []
for src in (ours_d, th_d):
    for l in src.splitlines():
        if l.startswith('import ') and l not in imports: imports.append(l)
def entries(src):
    m = re.search(r'def engines : List \(String × Engine\) := \[\n(.*?)\n\]', src, re.S)
    return [e.strip().rstrip(',') for e in m.group(1).splitlines() if e.strip()]
ents = []
for src in (ours_d, th_d):
    for e in entries(src):
        if e not in ents: ents.append(e)
body = ours_d
body = re.sub(r'(?m)^import .*\n', '', body)
body = '\n'.join(imports) + '\n' + body
body = re.sub(r'def engines : List \(String × Engine\) := \[\n.*?\n\]', 'def engines : List (String × Engine) := [\n  ' + ',\n  '.join(ents) + '\n]', body, flags=re.S)
open('lean/Driver.lean','w').write(body)
# checks.json
o = json.loads(show('HEAD','checks.json')); t = json.loads(show(theirs,'checks.json'))
for k,v in t['properties'].items():
    if k not in o['properties']: o['properties'][k] = v
names = {e['name'] for e in o.get('engines',[])}
for e in t.get('engines',[]):
    if e['name'] not in names: o.setdefault('engines',[]).append(e)
json.dump(o, open('checks.json','w'), indent=1)
print('merged Driver.lean engines:', ents)
print('claimed now:', sorted(o['properties']))
