#!/bin/bash
# sweep.sh <tier> <seed>...  — run every claimed check for the given seeds; prints one line per (check, seed)
cd "$(dirname "$0")/.."
tier=$1; shift
[ -x go/bin/harness ] || bin/setup >/dev/null 2>&1
for seed in "$@"; do
  for p in $(python3 -c "import json; print(' '.join(c['property_id'] for c in json.load(open('MANIFEST.json'))['checks']))"); do
    out=$(VERIF_SEED=$seed bin/check $p $tier 2>&1)
    echo "seed=$seed $(echo "$out" | grep '^check ' | tail -1)"
    echo "$out" | grep "^VIOLATION" | head -3
  done
done
