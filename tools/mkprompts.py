#!/usr/bin/env python3
"""mkprompts.py <round>  — write /tmp/prompts<round>/Cxx.txt: the task given to the seed-writing sub-agent of each property
(property text, its scratch worktree /tmp/w<round>-Cxx, output directory /tmp/seed<round>-Cxx, the ideas already taken).
The sub-agent gets nothing from /verif but this text."""
import json, glob, os, sys
rnd = sys.argv[1]
props = {}
for l in open('/verif/properties.jsonl'):
    p = json.loads(l); props[p['id']] = p
prior = {}
for d in sorted(glob.glob('/verif/seeded/*/meta.json')):
    m = json.load(open(d)); pid = m['property']
    desc = m.get('description_and_what_it_needs_to_manifest') or m.get('description') or ''
    lines = [x for x in desc.splitlines() if x.strip()]
    prior.setdefault(pid, []).append(' '.join(lines[:3])[:330])
os.makedirs(f'/tmp/prompts{rnd}', exist_ok=True)
for pid, p in props.items():
    w, sd = f'/tmp/w{rnd}-{pid}', f'/tmp/seed{rnd}-{pid}'
    txt = f"""You are working in a scratch git worktree of the Go library gookit/rux (a small HTTP router / web framework) at {w}. Work ONLY inside {w} and {sd}; never touch or read /repo, /verif or any other directory. The sandbox is offline: before any go command run `export GOFLAGS=-mod=mod GOPROXY=off GOSUMDB=off GOTOOLCHAIN=local`. The existing test suite is `go test -vet=off -count=1 ./...` from the worktree root (about 50 s; pkg/pprof alone takes 30 s).

A property that rux must satisfy:

  Title: {p['title']}
  Statement: {p['statement']}
  Quantified over: {p['quantifier']['text']}

Your task: write TWO different, realistic changes (mut1 and mut2) to the library's non-test Go source, each of which BREAKS this property while
  (a) still compiling (`go build ./...`),
  (b) passing the entire existing test suite, unedited, and
  (c) looking like a plausible maintainer edit (a refactor, micro-optimisation, clean-up, well-meant bug-fix attempt, new small feature) rather than sabotage.
Each change must need something SPECIFIC to manifest — a particular interleaving of concurrent requests, a fault at a particular point, a multi-step sequence of operations, an unusual input or configuration, or two cooperating sites that each look fine alone — and must NOT be something ordinary use would expose at once. Subtle and narrow is better than broad. Do not edit test files or verif_hooks.go. The two changes should touch different mechanisms, and at least one of them should be in a function or file that none of the ideas listed below touches.

Ideas that are already taken (do NOT repeat these or trivial variants; find different ones):
""" + "\n".join("  - " + s for s in prior.get(pid, [])) + f"""

For each mutation N in (1, 2) create the directory {sd}/mutN/ with:
  - patch.diff    : `git diff` taken from the worktree root; must apply with `git apply` on a clean worktree.
  - demo_test.go  : a Go test file whose FIRST line is `// place in: <dir relative to worktree root>` (e.g. `// place in: .` or `// place in: pkg/handlers`); package clause must fit that directory (internal package or external _test package); test function names start with `TestSeed`; it must FAIL with the patch applied and PASS on the clean tree; deterministic (if it needs concurrency, make the schedule deterministic with channels, no sleeps-as-synchronisation).
  - README.md     : what was changed and why it looks innocent, which clause of the property breaks, exactly what is needed for it to manifest, and the commands you ran with their results.
Verify yourself, for each mutation: (1) the demo passes on the clean tree, (2) with the patch `go build ./... && go test -vet=off -count=1 ./...` is all ok, (3) with the patch the demo fails. Never use `git stash` (the stash is shared by all worktrees of the repository). Leave the worktree clean at the end (`git checkout -- . && git clean -fdq`). Your final answer: a short summary (at most 6 lines per mutation).
"""
    open(f'/tmp/prompts{rnd}/{pid}.txt', 'w').write(txt)
print('ok')
