#!/usr/bin/env python3
"""give every driver-engine module its own namespace (workers all wrote into Rux.Drv and clash)"""
import re, sys, glob, os
for p in glob.glob('/verif/lean/RuxModel/Drv/*.lean'):
    name = os.path.basename(p)[:-5]
    if name in ('Common',): continue
    s = open(p).read()
    if f'namespace Rux.Drv.{name}E' in s: continue
    engs = re.findall(r'def (\w+Engine) : Engine', s)
    if not engs: continue
    eng = ' '.join(engs)
    if 'namespace Rux.Drv\n' not in s or 'end Rux.Drv' not in s: 
        print('skip', p); continue
    s = s.replace('namespace Rux.Drv\n', f'namespace Rux.Drv.{name}E\nopen Rux.Drv\n', 1)
    idx = s.rindex('end Rux.Drv')
    s = s[:idx] + f'end Rux.Drv.{name}E\n\nnamespace Rux.Drv\nexport {name}E ({eng})\nend Rux.Drv\n' + s[idx+len('end Rux.Drv'):].lstrip('\n')
    open(p,'w').write(s)
    print('wrapped', p, eng)
