#!/bin/bash
# check_seed.sh <seed-id> [tier]  — run the REAL check (bin/check, full decision logic) of the seed's property
# against a scratch copy of /repo with the seeded patch applied (VERIF_REPO test aid; /repo is not touched).
cd "$(dirname "$0")/.."
sid=$1; tier=${2:-quick}; pid=${sid%%-*}
W=$(pwd)/.work/seedrepo-$sid; rm -rf $W; mkdir -p $W
cp -r /repo $W/repo; rm -rf $W/repo/.git
(cd $W/repo && patch -p1 -s < ../../../seeded/$sid/patch.diff) || { echo "$sid PATCH-FAILED"; rm -rf $W; exit 2; }
rm -rf .work/alt-out/replays
out=$(VERIF_REPO=$W/repo bin/check $pid $tier 2>&1); rc=$?
echo "$out" | grep "^VIOLATION\|^check " | cut -c1-220
[ $rc -eq 1 ] && echo "HOW $(tools/seed_summary.py $pid)"
rm -rf $W
exit $rc
