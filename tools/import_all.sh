#!/bin/bash
# import_all.sh — elaborate one file that imports EVERY module under lean/RuxModel (after `lake build`): two modules that
# declare the same name build fine separately and clash only when a check's audit file imports both.
cd "$(dirname "$0")/../lean"
mkdir -p ../.work
( find RuxModel -name '*.lean' | sort | sed 's/\.lean$//; s#/#.#g; s/^/import /' ) > ../.work/all_imports.lean
lake build $(sed 's/^import //' ../.work/all_imports.lean) 2>&1 | grep -i "error" | head
lake env lean ../.work/all_imports.lean 2>&1 | grep -v conda | head -5
echo "import_all: done"
