#!/usr/bin/env python3
"""import_seeds.py <round> <seed-prefix> <wt-prefix> [Cxx...] — copy VERIFIED seeded mutations from /tmp/<seed-prefix>-Cxx/mutN
into /verif/seeded/Cxx-r<round>mutN/ (patch.diff, demo_test.go, meta.json)."""
import json, os, shutil, subprocess, sys, glob
rnd, sp, wp = sys.argv[1], sys.argv[2], sys.argv[3]
only = sys.argv[4:]
base = subprocess.run(['git', '-C', '/repo', 'rev-parse', '--short', 'HEAD'], capture_output=True, text=True).stdout.strip()
for d in sorted(glob.glob(f'/tmp/{sp}-C*/mut*')):
    pid = d.split('/')[2].split('-')[1]
    if only and pid not in only:
        continue
    n = os.path.basename(d)[3:]
    vt = os.path.join(d, 'verify.txt')
    if not os.path.exists(vt):
        print(pid, n, 'not verified yet'); continue
    log = open(vt).read()
    if not log.strip().endswith('VERIFIED'):
        print(pid, n, 'REJECTED'); continue
    sid = f'{pid}-r{rnd}mut{n}'
    dst = f'/verif/seeded/{sid}'
    os.makedirs(dst, exist_ok=True)
    shutil.copy(os.path.join(d, 'patch.diff'), dst)
    shutil.copy(os.path.join(d, 'demo_test.go'), dst)
    readme = open(os.path.join(d, 'README.md')).read() if os.path.exists(os.path.join(d, 'README.md')) else ''
    place = open(os.path.join(d, 'demo_test.go')).readline().strip()
    meta = {"id": sid, "property": pid, "base_commit": base, "round": int(rnd),
            "written_by": "independent sub-agent given only the property text, a list of ideas already taken and a scratch worktree of /repo (nothing from /verif)",
            "description_and_what_it_needs_to_manifest": readme,
            "demo_placement": place,
            "what_i_ran": f"WT_PREFIX={wp} SEED_PREFIX={sp} tools/verify_seed.sh {pid} in scratch worktree /tmp/{wp}-{pid}: (1) demo alone on the clean tree, (2) git apply patch.diff; go build ./... && go test -vet=off -count=1 ./... , (3) demo with the patch applied",
            "verify_log": log, "confirmed": True}
    json.dump(meta, open(os.path.join(dst, 'meta.json'), 'w'), indent=1)
    print('imported', sid)
