#!/bin/bash
# verify_seed.sh <Cxx>  — confirm the seeded mutations of one property in its scratch worktree /tmp/wt-Cxx:
#   suite green with patch, demo fails with patch, demo passes without patch. Writes /tmp/seed-Cxx/mutN/verify.txt
export GOFLAGS=-mod=mod GOPROXY=off GOSUMDB=off GOTOOLCHAIN=local
[ -f /tmp/skip-$1 ] && exit 0
id=$1; wt=/tmp/${WT_PREFIX:-wt}-$id
for m in /tmp/${SEED_PREFIX:-seed}-$id/mut*; do
  [ -f $m/patch.diff ] || continue
  out=$m/verify.txt; : > $out
  git -C $wt checkout -q -- . ; git -C $wt clean -fdq
  place=$(head -1 $m/demo_test.go | sed -n 's/.*place in: *\([^ ]*\).*/\1/p'); [ -z "$place" ] && place=.
  tests=$(grep -o '^func Test[A-Za-z0-9_]*' $m/demo_test.go | sed 's/func //' | paste -sd'|')
  echo "place=$place tests=$tests" >> $out
  # 1. demo passes without patch
  cp $m/demo_test.go $wt/$place/zz_seed_demo_test.go
  (cd $wt/$place && go test -vet=off -count=1 -run "^($tests)\$" . >/tmp/vs-$id.log 2>&1); r1=$?
  echo "demo_without_patch_exit=$r1" >> $out
  rm -f $wt/$place/zz_seed_demo_test.go
  # 2. patch applies, suite green
  if ! git -C $wt apply $m/patch.diff 2>>$out; then echo "APPLY_FAILED" >> $out; continue; fi
  (cd $wt && go build ./... >/tmp/vs-$id.log 2>&1 && go test -vet=off -count=1 ./... >>/tmp/vs-$id.log 2>&1); r2=$?
  echo "suite_with_patch_exit=$r2" >> $out
  [ $r2 -ne 0 ] && tail -20 /tmp/vs-$id.log >> $out
  # 3. demo fails with patch
  cp $m/demo_test.go $wt/$place/zz_seed_demo_test.go
  (cd $wt/$place && go test -vet=off -count=1 -run "^($tests)\$" . >/tmp/vs-$id.log 2>&1); r3=$?
  echo "demo_with_patch_exit=$r3" >> $out
  rm -f $wt/$place/zz_seed_demo_test.go
  git -C $wt checkout -q -- . ; git -C $wt clean -fdq
  if [ $r1 -eq 0 ] && [ $r2 -eq 0 ] && [ $r3 -ne 0 ]; then echo "VERIFIED" >> $out; else echo "REJECTED" >> $out; fi
done
