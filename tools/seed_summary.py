#!/usr/bin/env python3
"""seed_summary.py <pid> — one line about the last ALT run (VERIF_REPO) of a check: which engines produced failing
inputs (obs = the answers differ, or the name of the oracle that fired) and which Lean declarations stopped checking."""
import glob, json, os, sys
ROOT = os.path.dirname(os.path.dirname(os.path.abspath(__file__)))
pid = sys.argv[1]
out = os.path.join(ROOT, ".work", "alt-out")
found = []
for f in sorted(glob.glob(os.path.join(out, "replays", pid + "-*.json"))):
    try:
        r = json.load(open(f))
    except (OSError, ValueError):
        continue
    if r.get("kind") == "failing-input":
        orc = r.get("oracle")
        how = "obs"
        if orc and orc != "None":
            how = "oracle: " + str(orc).split("\n")[0][:70]
        tag = ""
        c = r.get("case")
        if isinstance(c, str) and "'tag':" in c:
            tag = c.split("'tag':")[1].split(",")[0].strip(" '}\"")
        found.append("%s (%s%s)" % (r.get("engine"), how, ("; case " + tag) if tag else ""))
    else:
        decls = []
        for pr in r.get("problems") or []:
            if isinstance(pr, dict):
                for fd in pr.get("failing_declarations") or []:
                    decls.append("%s (%s)" % (fd.get("decl"), os.path.basename(str(fd.get("file")))))
                if not pr.get("failing_declarations"):
                    decls.append(str(pr.get("what"))[:80])
        found.append("no failing input; not shown: " + ", ".join(decls)[:240])
seen, res = set(), []
for x in found:
    if x not in seen:
        seen.add(x); res.append(x)
print(" | ".join(res))
