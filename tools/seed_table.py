#!/usr/bin/env python3
"""seed_table.py <matrix-log> <glob-substring>  — markdown rows (seed | first line of the author's description | found by)
for the seeds whose id contains the substring, from a log of tools/seed_matrix.sh and seeded/<id>/meta.json"""
import json, re, sys
log, sub = sys.argv[1], sys.argv[2]
for line in open(log):
    m = re.match(r'^(C\d\d-\S+) (CAUGHT|MISSED)\s*(\S*)\s*(?:::\s*(.*))?$', line.strip())
    if not m or sub not in m.group(1):
        continue
    sid, res, kind, how = m.groups()
    meta = json.load(open(f'/verif/seeded/{sid}/meta.json'))
    desc = meta.get('description_and_what_it_needs_to_manifest', '')
    first = ''
    for l in desc.splitlines():
        l = l.strip().lstrip('#').strip()
        if l:
            first = l
            break
    first = re.sub(r'^C\d\d\s*/?\s*mut\d\s*[:—-]\s*', '', first)
    first = re.sub(r'^(C\d\d[- ]r?\d?mut\d|mut\d|Mutation \d)\s*[:—-]\s*', '', first, flags=re.I)
    if res == 'MISSED':
        found = '**missed**'
    elif kind == 'no-failing-input-found':
        names = sorted(set(re.findall(r'(\w[\w.]*) \((\w+\.lean)\)', how or '')))
        found = 'theorems only: ' + ', '.join(f'{a} ({b})' for a, b in names[:4]) + ' — **no-failing-input-found**'
    else:
        engines = []
        for part in (how or '').split('|'):
            part = part.strip()
            mm = re.match(r'^(\w+) \((obs|oracle)', part)
            if mm and f'{mm.group(1)} ({mm.group(2)})' not in engines:
                engines.append(f'{mm.group(1)} ({mm.group(2)})')
        found = ', '.join(engines)
    print(f'| {sid} | {first[:200]} | {found} |')
