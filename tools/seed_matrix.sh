#!/bin/bash
# seed_matrix.sh — run, for every seeded mutation, the engines of its property (scratch copies, never /repo)
cd "$(dirname "$0")/.."
for d in seeded/*/; do
  sid=$(basename $d); pid=${sid%%-*}
  engs=$(python3 -c "
import json; c=json.load(open('checks.json'))
print(' '.join(c['properties'].get('$pid',{}).get('engines',[])))")
  [ -z "$engs" ] && { echo "$sid NO-CHECK"; continue; }
  out=$(tools/try_seed.sh $sid $engs 2>&1)
  if echo "$out" | grep -q "findings=[1-9]"; then
    k=$(echo "$out" | grep -m1 "finding kind" | sed 's/.*finding kind=\([a-z]*\).*/\1/')
    e=$(echo "$out" | grep "findings=[1-9]" | sed 's/engine=\([a-z]*\).*/\1/' | paste -sd,)
    echo "$sid CAUGHT engines=$e first=$k"
  else
    echo "$sid MISSED engines=$engs"
  fi
done
