#!/bin/bash
# seed_matrix.sh [tier] [glob] — run, for every seeded mutation, the REAL check of its property (tools/check_seed.sh:
# bin/check against a scratch copy of /repo with the patch applied; /repo is never touched). One line per seed.
cd "$(dirname "$0")/.."
tier=${1:-quick}
pat=${2:-*}
for d in seeded/$pat/; do
  sid=$(basename $d)
  out=$(tools/check_seed.sh $sid $tier 2>&1); rc=$?
  if [ $rc -eq 1 ]; then
    how=$(echo "$out" | grep "^HOW " | cut -c5-)
    if echo "$out" | grep "^VIOLATION" | grep -qv "no-failing-input-found"; then echo "$sid CAUGHT failing-input :: $how"; else echo "$sid CAUGHT no-failing-input-found :: $how"; fi
  elif [ $rc -eq 0 ]; then echo "$sid MISSED"
  else echo "$sid ERROR $(echo "$out" | tail -1)"; fi
done
