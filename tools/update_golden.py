#!/usr/bin/env python3
"""update_golden.py — write lean/RuxModel/Tie/Golden.lean: verbatim copies (namespace Rux.Golden) of the generated
definitions that do not have a semantic tie theorem yet, plus `rfl` theorems `Golden.<name>_unchanged` saying that
the definition generated from /repo NOW is that copy.  Run by hand after an intended change of the translator or
of the configuration; bin/check never runs it."""
import re, sys, os
ROOT = os.path.dirname(os.path.dirname(os.path.abspath(__file__)))
NAMES = sys.argv[1:] or ["Router.handleHTTPRequest"]
src = open(os.path.join(ROOT, "lean/RuxModel/Generated/Code.lean")).read()
out = ['''import RuxModel.Generated.Code
/-
  WRITTEN BY tools/update_golden.py — snapshot ties.  For generated definitions that have no semantic tie theorem yet,
  a verbatim copy taken when the framework was last reviewed, and the theorem (by `rfl`) that what go/go2lean generates
  from /repo now is still that copy.  A change of the Go function changes the generated definition and the `rfl` stops
  checking; bin/check then searches for a failing input with the engines.  (A snapshot says "unchanged since reviewed",
  nothing about what the function does — the readable specification and the property theorems on top of it are in
  Tie/Handle.lean.)
-/
set_option linter.unusedVariables false
namespace Rux.Golden
open Rux Rux.Gen

variable {γ : Type}
''']
for name in NAMES:
    m = re.search(r"^def %s .*?(?=^/--|^end Rux\.Gen|\Z)" % re.escape(name), src, re.S | re.M)
    if not m:
        sys.exit("definition %s not found" % name)
    body = m.group(0).rstrip() + "\n"
    # aux loop defs (if any) are referenced as Gen.*; the copy itself lives in Rux.Golden
    out.append(body)
    flat = name.replace(".", "_")
    out.append("theorem %s_unchanged : @Gen.%s = @Golden.%s := rfl\n" % (flat, name, name))
out.append("end Rux.Golden\n")
open(os.path.join(ROOT, "lean/RuxModel/Tie/Golden.lean"), "w").write("\n".join(out))
print("wrote Tie/Golden.lean for", NAMES)
