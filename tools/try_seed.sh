#!/bin/bash
# try_seed.sh <seed-id> <engine> [engine...]  — run harness engines against a scratch copy of /repo with one
# seeded mutation applied (never touches /repo itself). Exit 0 if some engine reported a finding.
export GOFLAGS=-mod=mod GOPROXY=off GOSUMDB=off GOTOOLCHAIN=local
sid=$1; shift
W=/tmp/try-$sid-$$; rm -rf $W; mkdir -p $W
cp -r /repo $W/repo; rm -rf $W/repo/.git
(cd $W/repo && patch -p1 -s < /verif/seeded/$sid/patch.diff) || { echo "patch failed"; rm -rf $W; exit 2; }
cp -r /verif/go/harness $W/harness
(cd $W/harness && go mod edit -replace github.com/gookit/rux=$W/repo && go build -tags verif -o $W/h . ) || { echo "build failed"; rm -rf $W; exit 2; }
caught=1
for e in "$@"; do
  out=$($W/h -engine $e -tier ${TIER:-quick} -seed ${VERIF_SEED:-1} -driver /verif/lean/.lake/build/bin/driver -out $W/rep.json 2>&1)
  echo "$out" | head -${LINES_SHOWN:-4}
  echo "$out" | grep -q "findings=[1-9]" && caught=0
done
rm -rf $W
exit $caught
