#!/bin/bash
# try_tie.sh <patch.diff> <lean-module>...  — apply a patch to a scratch copy of /repo, translate it with go2lean and
# build the given Lean modules against the translation (restores Generated/Code.lean afterwards). Exit 0 = build OK.
export GOFLAGS=-mod=mod GOPROXY=off GOSUMDB=off GOTOOLCHAIN=local
cd "$(dirname "$0")/.."
patch=$(readlink -f $1); shift
W=$(pwd)/.work/trytie-$$; rm -rf $W; mkdir -p $W; cp -r /repo $W/repo; rm -rf $W/repo/.git
(cd $W/repo && patch -p1 -s < $patch) || { echo PATCH-FAILED; rm -rf $W; exit 2; }
cp lean/RuxModel/Generated/Code.lean $W/Code.lean.bak
cp lean/RuxModel/Generated/Facts.lean $W/Facts.lean.bak
go/bin/go2lean -repo $W/repo -out lean/RuxModel/Generated/Code.lean -json $W/code.json
go/bin/extract -repo $W/repo -out lean/RuxModel/Generated/Facts.lean -json $W/facts.json
(cd lean && lake build "$@" > $W/out.txt 2>&1); rc=$?
grep -v conda $W/out.txt | grep -A12 "error" | head -${LINES_SHOWN:-30}
cp $W/Code.lean.bak lean/RuxModel/Generated/Code.lean
cp $W/Facts.lean.bak lean/RuxModel/Generated/Facts.lean
rm -rf $W
exit $rc
